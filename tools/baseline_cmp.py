#!/usr/bin/env python3
"""Compare a `cargo test --workspace` log with /root/.vp/BASELINE.json stable_pass."""
import json,re,sys
base=json.load(open('/root/.vp/BASELINE.json'))
stable=set(base['stable_pass'])
log=open(sys.argv[1],errors='replace').read().splitlines()
cur=None; res={}
for l in log:
    m=re.match(r'\s*Running (?:unittests )?(\S+) \((\S+)\)',l)
    if m:
        b=m.group(2).split('/')[-1]; b=re.sub(r'-[0-9a-f]{16}$','',b); cur=b; continue
    m=re.match(r'\s*Doc-tests (\S+)',l)
    if m: cur='doc:'+m.group(1); continue
    m=re.match(r'test (.+?) \.\.\. (\w+)',l)
    if m and cur:
        if cur.startswith('doc:'):
            res['doctest:'+cur[4:].replace('-','_')+'::'+m.group(1)]=m.group(2)
        else:
            res[cur+'::'+m.group(1)]=m.group(2)
ok={k for k,v in res.items() if v=='ok'}
print('parsed',len(res),'ok',len(ok),'stable',len(stable))
missing=sorted(stable-ok)
print('stable tests not passing in this run:',len(missing))
for m in missing[:40]: print('  ',m,res.get(m))
