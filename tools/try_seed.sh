#!/usr/bin/env bash
# try_seed.sh <property> <patch.diff> [vcheck args...] — apply a seeded change to /repo, run the check, always undo.
set -u
P=$1; PATCH=$2; shift 2
cd /repo || exit 9
git diff --quiet || { echo "/repo has uncommitted changes"; exit 9; }
git apply --check "$PATCH" || { echo "patch does not apply"; exit 9; }
git apply "$PATCH"
trap 'git -C /repo checkout -- . ' EXIT
cd /verif && bin/vcheck "$P" "$@"
rc=$?
cp /verif/evidence/$P.json /tmp/evidence_seed_$P.json 2>/dev/null
echo "exit=$rc"
exit $rc
