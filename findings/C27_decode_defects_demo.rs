mod c27_defect_demo {
    use super::*;
    #[test]
    fn negative_length_overflows_or_reads_past_frame() {
        // 'Q', length = -1, then bytes that belong to the NEXT frame
        let mut buf = BytesMut::from(&[b'Q', 0xff, 0xff, 0xff, 0xff, b'X', 0, 0, 0, 4][..]);
        let r = std::panic::catch_unwind(move || { let r = FrontendMessage::decode(&mut buf); (format!("{:?}", r), buf.len()) });
        println!("negative length: {:?}", r);
        assert!(matches!(r, Ok((ref s, n)) if s.starts_with("Err") && n == 10), "must be a clean error consuming nothing: {:?}", r);
    }
    #[test]
    fn zero_length_query_consumes_next_frame() {
        // 'Q' with declared length 0 (invalid, < 4) followed by a Terminate frame
        let mut buf = BytesMut::from(&[b'Q', 0, 0, 0, 0, b'X', 0, 0, 0, 0, 4][..]);
        let r = FrontendMessage::decode(&mut buf);
        println!("len0: {:?} remaining {}", r, buf.len());
        assert!(r.is_err(), "declared length 0 must be rejected, got {:?} with {} bytes left", r, buf.len());
    }
    #[test]
    fn startup_len4_panics() {
        let mut buf = BytesMut::from(&[0, 0, 0, 4][..]);
        let r = std::panic::catch_unwind(move || format!("{:?}", FrontendMessage::decode_startup(&mut buf)));
        assert!(r.is_ok(), "decode_startup panicked on a 4-byte packet");
    }
}
