use std::panic::{catch_unwind, AssertUnwindSafe};
use vibesql_executor::SelectExecutor;
use vibesql_storage::Database;
fn run(sql: &str) -> std::thread::Result<Result<Vec<vibesql_storage::Row>, String>> {
    let db = Database::new();
    let stmt = vibesql_parser::Parser::parse_sql(sql).expect("parse");
    let select = match stmt { vibesql_ast::Statement::Select(s) => s, _ => panic!() };
    catch_unwind(AssertUnwindSafe(|| SelectExecutor::new(&db).execute(&select).map_err(|e| format!("{:?}", e))))
}
#[test]
fn substring_multibyte_does_not_panic() {
    let r = run("SELECT SUBSTRING('h\u{e9}llo', 2, 1)");
    println!("{:?}", r);
    assert!(r.is_ok(), "SUBSTRING on a multi-byte string panicked");
}
#[test]
fn substring_huge_length_does_not_panic() {
    let r = run("SELECT SUBSTRING('hello', 2, 9223372036854775807)");
    println!("{:?}", r);
    assert!(r.is_ok(), "SUBSTRING with a huge length panicked");
}
