use vibesql_executor::{CreateTableExecutor, InsertExecutor, SelectExecutor};
use vibesql_storage::Database;
fn exec(db: &mut Database, sql: &str) {
    match vibesql_parser::Parser::parse_sql(sql).expect("parse") {
        vibesql_ast::Statement::CreateTable(c) => { CreateTableExecutor::execute(&c, db).unwrap(); }
        vibesql_ast::Statement::Insert(i) => { InsertExecutor::execute(db, &i).unwrap(); }
        _ => panic!("unsupported"),
    }
}
fn q(db: &Database, sql: &str) -> String {
    match vibesql_parser::Parser::parse_sql(sql).unwrap() {
        vibesql_ast::Statement::Select(s) => format!("{:?}", SelectExecutor::new(db).execute(&s).map(|r| r.into_iter().map(|x| x.values).collect::<Vec<_>>())),
        _ => panic!(),
    }
}
#[test]
fn probes() {
    let mut db = Database::new();
    exec(&mut db, "CREATE TABLE t (a INTEGER, b DOUBLE PRECISION)");
    println!("PROBE empty COUNT(*)      -> {}", q(&db, "SELECT COUNT(*) FROM t"));
    println!("PROBE empty COUNT(a),SUM  -> {}", q(&db, "SELECT COUNT(a), SUM(a) FROM t"));
    exec(&mut db, "INSERT INTO t VALUES (1, 1.5)");
    exec(&mut db, "INSERT INTO t VALUES (NULL, NULL)");
    exec(&mut db, "INSERT INTO t VALUES (3, 2.5)");
    println!("PROBE COUNT(a)            -> {}", q(&db, "SELECT COUNT(a) FROM t"));
    println!("PROBE COUNT(*),COUNT(a),SUM(a),AVG(a) -> {}", q(&db, "SELECT COUNT(*), COUNT(a), SUM(a), AVG(a) FROM t"));
    println!("PROBE AVG(b), SUM(b)      -> {}", q(&db, "SELECT AVG(b), SUM(b) FROM t"));
    println!("PROBE COUNT(a) WHERE a>0  -> {}", q(&db, "SELECT COUNT(a), AVG(a) FROM t WHERE a > 0"));
    exec(&mut db, "CREATE TABLE n (a INTEGER)");
    exec(&mut db, "INSERT INTO n VALUES (NULL)");
    exec(&mut db, "INSERT INTO n VALUES (NULL)");
    println!("PROBE all-NULL SUM,AVG,COUNT(a),MIN -> {}", q(&db, "SELECT SUM(a), AVG(a), COUNT(a), MIN(a) FROM n"));
}
