// property C20, harness c18::c20_read_string_len4 (crate harness/storage)
// failed checks:
//   "allocation request is bounded by the remaining input"  at src/stubs.rs:18 in std::vec::from_elem::<u8>
// native replay: reproduced=True; log /verif/.kani-target/logs/replay_c18__c20_read_string_len4.log
// re-run: bin/vcheck C20 --replay /verif/replay/C20/c18__c20_read_string_len4.rs
// Append the test(s) below to the harness module and run
//   RUSTFLAGS='--cfg rjwalters_vibesql_verif' cargo kani playback -Z concrete-playback --test <name>

/// Test generated for harness `c18::c20_read_string_len4` 
///
/// Check for `assertion`: ""allocation request is bounded by the remaining input""
///
/// # Warning
///
/// Concrete playback tests combined with stubs or contracts is highly
/// experimental, and subject to change.
///
/// The original harness has stubs which are not applied to this test.
/// This may cause a mismatch of non-deterministic values if the stub
/// creates any non-deterministic value.
/// The execution path may also differ, which can be used to refine the stub
/// logic.

#[test]
fn kani_concrete_playback_c20_read_string_len4_1598899470972107972() {
    let concrete_vals: Vec<Vec<u8>> = vec![
        // 5
        vec![5],
        // 0
        vec![0],
        // 2
        vec![2],
        // 0
        vec![0],
    ];
    kani::concrete_playback_run(concrete_vals, c20_read_string_len4);
}

