use std::panic::{catch_unwind, AssertUnwindSafe};
use vibesql_executor::{CreateTableExecutor, InsertExecutor, SelectExecutor};
use vibesql_storage::Database;
fn exec(db: &mut Database, sql: &str) {
    match vibesql_parser::Parser::parse_sql(sql).expect("parse") {
        vibesql_ast::Statement::CreateTable(c) => { CreateTableExecutor::execute(&c, db).unwrap(); }
        vibesql_ast::Statement::Insert(i) => { InsertExecutor::execute(db, &i).unwrap(); }
        _ => panic!("unsupported"),
    }
}
fn q(db: &Database, sql: &str) -> String {
    let stmt = match vibesql_parser::Parser::parse_sql(sql).unwrap() { vibesql_ast::Statement::Select(s) => s, _ => panic!() };
    match catch_unwind(AssertUnwindSafe(|| SelectExecutor::new(db).execute(&stmt).map(|r| r.into_iter().map(|x| x.values).collect::<Vec<_>>()))) {
        Ok(r) => format!("{:?}", r),
        Err(_) => "PANIC".to_string(),
    }
}
#[test]
fn division_of_double_columns_does_not_panic() {
    let mut db = Database::new();
    exec(&mut db, "CREATE TABLE t (a DOUBLE PRECISION, b DOUBLE PRECISION, i INTEGER, f FLOAT, r REAL)");
    exec(&mut db, "INSERT INTO t VALUES (1.5, 2.0, 3, 2.5, 4.5)");
    let r1 = q(&db, "SELECT a / b FROM t");
    let r2 = q(&db, "SELECT i / b FROM t");
    let r3 = q(&db, "SELECT f / i FROM t");
    let r4 = q(&db, "SELECT r / r FROM t");
    println!("PROBE a/b -> {}\nPROBE i/b -> {}\nPROBE f/i -> {}\nPROBE r/r -> {}", r1, r2, r3, r4);
    assert!(!r1.contains("PANIC") && !r2.contains("PANIC") && !r3.contains("PANIC") && !r4.contains("PANIC"));
}
