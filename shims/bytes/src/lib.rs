//! Environment model of `bytes::{Buf, BufMut, BytesMut}` for solver-based checking.
//!
//! Same observable behaviour and the same panic conditions as bytes 1.x for the methods
//! vibesql-server's `protocol/messages.rs` calls:
//!   * `advance(cnt)` panics if `cnt > remaining()`
//!   * `get_*()` panic if `remaining() < size_of::<T>()`
//!   * `split_to(at)` panics if `at > len()`
//! Representation: a `Vec<u8>` plus a read offset (the real crate uses a raw pointer, a
//! tagged `data` word and promotes to an `Arc` on `split_to`, which CBMC cannot afford).
//! The model is differentially tested against the real crate by /verif/shims/bytes_difftest.
use std::ops::{Deref, DerefMut};

/// Capacity of the model buffer. Every harness works with buffers far below this; exceeding it
/// is reported as a (model) panic, never silently truncated.
pub const CAP: usize = 64;

#[derive(Clone, Debug)]
pub struct BytesMut {
    /// inline storage (no heap object: keeps CBMC's pointer analysis and array theory small);
    /// the live window is `d[off..end]`
    d: [u8; CAP],
    off: usize,
    end: usize,
}

impl Default for BytesMut {
    fn default() -> Self {
        BytesMut::new()
    }
}

impl PartialEq for BytesMut {
    fn eq(&self, o: &Self) -> bool {
        self[..] == o[..]
    }
}
impl Eq for BytesMut {}

impl BytesMut {
    pub fn new() -> Self {
        BytesMut { d: [0; CAP], off: 0, end: 0 }
    }
    pub fn with_capacity(_c: usize) -> Self {
        BytesMut::new()
    }
    #[inline]
    pub fn len(&self) -> usize {
        self.end - self.off
    }
    #[inline]
    pub fn is_empty(&self) -> bool {
        self.len() == 0
    }
    pub fn capacity(&self) -> usize {
        CAP - self.off
    }
    pub fn clear(&mut self) {
        self.off = 0;
        self.end = 0;
    }
    pub fn reserve(&mut self, _additional: usize) {}
    pub fn extend_from_slice(&mut self, s: &[u8]) {
        BufMut::put_slice(self, s);
    }
    pub fn truncate(&mut self, len: usize) {
        if len < self.len() {
            self.end = self.off + len;
        }
    }
    /// Splits the buffer into `[0, at)` (returned) and `[at, len)` (kept): the storage is copied
    /// (fixed size) and the two windows narrowed, so no copy of symbolic length is involved.
    pub fn split_to(&mut self, at: usize) -> BytesMut {
        assert!(at <= self.len(), "split_to out of bounds");
        let head = BytesMut { d: self.d, off: self.off, end: self.off + at };
        self.off += at;
        head
    }
    pub fn split(&mut self) -> BytesMut {
        let n = self.len();
        self.split_to(n)
    }
    pub fn freeze(self) -> Vec<u8> {
        self[..].to_vec()
    }
}

impl From<&[u8]> for BytesMut {
    fn from(s: &[u8]) -> Self {
        assert!(s.len() <= CAP, "bytes model: buffer larger than the model capacity");
        let mut b = BytesMut::new();
        let mut i = 0;
        while i < s.len() {
            b.d[i] = s[i];
            i += 1;
        }
        b.end = s.len();
        b
    }
}
impl From<Vec<u8>> for BytesMut {
    fn from(v: Vec<u8>) -> Self {
        BytesMut::from(&v[..])
    }
}

impl Deref for BytesMut {
    type Target = [u8];
    #[inline]
    fn deref(&self) -> &[u8] {
        &self.d[self.off..self.end]
    }
}
impl DerefMut for BytesMut {
    #[inline]
    fn deref_mut(&mut self) -> &mut [u8] {
        let (o, e) = (self.off, self.end);
        &mut self.d[o..e]
    }
}
impl AsRef<[u8]> for BytesMut {
    fn as_ref(&self) -> &[u8] {
        self
    }
}

pub trait Buf {
    fn remaining(&self) -> usize;
    fn chunk(&self) -> &[u8];
    fn advance(&mut self, cnt: usize);
    fn has_remaining(&self) -> bool {
        self.remaining() > 0
    }
    fn get_u8(&mut self) -> u8 {
        assert!(self.remaining() >= 1, "buffer underflow");
        let b = self.chunk()[0];
        self.advance(1);
        b
    }
    fn get_i8(&mut self) -> i8 {
        self.get_u8() as i8
    }
    fn get_u16(&mut self) -> u16 {
        assert!(self.remaining() >= 2, "buffer underflow");
        let c = self.chunk();
        let r = u16::from_be_bytes([c[0], c[1]]);
        self.advance(2);
        r
    }
    fn get_i16(&mut self) -> i16 {
        self.get_u16() as i16
    }
    fn get_u32(&mut self) -> u32 {
        assert!(self.remaining() >= 4, "buffer underflow");
        let c = self.chunk();
        let r = u32::from_be_bytes([c[0], c[1], c[2], c[3]]);
        self.advance(4);
        r
    }
    fn get_i32(&mut self) -> i32 {
        self.get_u32() as i32
    }
    fn get_u64(&mut self) -> u64 {
        assert!(self.remaining() >= 8, "buffer underflow");
        let c = self.chunk();
        let r = u64::from_be_bytes([c[0], c[1], c[2], c[3], c[4], c[5], c[6], c[7]]);
        self.advance(8);
        r
    }
    fn get_i64(&mut self) -> i64 {
        self.get_u64() as i64
    }
    fn copy_to_slice(&mut self, dst: &mut [u8]) {
        assert!(self.remaining() >= dst.len(), "buffer underflow");
        let n = dst.len();
        dst.copy_from_slice(&self.chunk()[..n]);
        self.advance(n);
    }
}

impl Buf for BytesMut {
    #[inline]
    fn remaining(&self) -> usize {
        self.len()
    }
    #[inline]
    fn chunk(&self) -> &[u8] {
        &self.d[self.off..self.end]
    }
    #[inline]
    fn advance(&mut self, cnt: usize) {
        assert!(cnt <= self.remaining(), "cannot advance past `remaining`");
        self.off += cnt;
    }
}

pub trait BufMut {
    fn put_slice(&mut self, src: &[u8]);
    fn put_u8(&mut self, n: u8) {
        self.put_slice(&[n]);
    }
    fn put_i8(&mut self, n: i8) {
        self.put_slice(&[n as u8]);
    }
    fn put_u16(&mut self, n: u16) {
        self.put_slice(&n.to_be_bytes());
    }
    fn put_i16(&mut self, n: i16) {
        self.put_slice(&n.to_be_bytes());
    }
    fn put_u32(&mut self, n: u32) {
        self.put_slice(&n.to_be_bytes());
    }
    fn put_i32(&mut self, n: i32) {
        self.put_slice(&n.to_be_bytes());
    }
    fn put_u64(&mut self, n: u64) {
        self.put_slice(&n.to_be_bytes());
    }
    fn put_i64(&mut self, n: i64) {
        self.put_slice(&n.to_be_bytes());
    }
    fn put_bytes(&mut self, val: u8, cnt: usize) {
        let mut i = 0;
        while i < cnt {
            self.put_u8(val);
            i += 1;
        }
    }
}

impl BufMut for BytesMut {
    #[inline]
    fn put_slice(&mut self, src: &[u8]) {
        let mut i = 0;
        while i < src.len() {
            assert!(self.end < CAP, "bytes model: write beyond the model capacity");
            self.d[self.end] = src[i];
            self.end += 1;
            i += 1;
        }
    }
    #[inline]
    fn put_u8(&mut self, n: u8) {
        assert!(self.end < CAP, "bytes model: write beyond the model capacity");
        self.d[self.end] = n;
        self.end += 1;
    }
}
