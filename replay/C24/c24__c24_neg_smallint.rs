// property C24, harness c24::c24_neg_smallint (crate harness/exec)
// failed checks:
//   attempt to negate with overflow  at /home/runner/.rustup/toolchains/nightly-2026-08-21-x86_64-unknown-linux-gnu/lib/rustlib/src/rust/library/core/src/ops/arith.rs:719 in <i16 as std::ops::Neg>::neg
// native replay: reproduced=True; log /verif/.kani-target/logs/replay_c24__c24_neg_smallint.log
// re-run: bin/vcheck C24 --replay /verif/replay/C24/c24__c24_neg_smallint.rs
// Append the test(s) below to the harness module and run
//   RUSTFLAGS='--cfg rjwalters_vibesql_verif' cargo kani playback -Z concrete-playback --test <name>

/// Test generated for harness `c24::c24_neg_smallint` 
///
/// Check for `assertion`: "attempt to negate with overflow"

#[test]
fn kani_concrete_playback_c24_neg_smallint_10460308889206759056() {
    let concrete_vals: Vec<Vec<u8>> = vec![
        // -32768
        vec![0, 128],
    ];
    kani::concrete_playback_run(concrete_vals, c24_neg_smallint);
}

