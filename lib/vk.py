#!/usr/bin/env python3
"""vcheck driver: runs the Kani/CBMC harnesses of one property against /repo's working tree,
turns solver verdicts into exit codes, replays counterexamples natively and writes evidence.

Exit codes: 0 = every registered harness of the tier was decided SUCCESSFUL by the solver
                (or failed only in a listed known finding);
            1 = a counterexample was found AND reproduced natively (VIOLATION line printed);
            2 = inconclusive (build failure, timeout, OOM, unwinding assertion, vacuous harness,
                counterexample that does not reproduce).  Never reported as a pass.
"""
import fcntl
import json
import os
import re
import shutil
import subprocess
import sys
import time

VERIF = os.path.dirname(os.path.dirname(os.path.abspath(__file__)))
REPO = os.environ.get("VERIF_REPO", "/repo")
TARGET = os.path.join(VERIF, ".kani-target")
GUARD = "rjwalters_vibesql_verif"

PASS_STATUS = {"Success", "Unreachable", "Satisfied"}


def log(*a):
    print(*a, flush=True)


def load_registry():
    """harness/<crate>/harnesses.json -> {property: {crate: spec}}"""
    reg = {}
    hdir = os.path.join(VERIF, "harness")
    for crate in sorted(os.listdir(hdir)):
        if crate.startswith("_"):
            continue
        f = os.path.join(hdir, crate, "harnesses.json")
        if not os.path.exists(f):
            continue
        with open(f) as fh:
            d = json.load(fh)
        for pid, spec in d.items():
            if pid.startswith("_"):
                continue
            reg.setdefault(pid, {})[crate] = spec
    return reg


def load_known():
    f = os.path.join(VERIF, "known_findings.json")
    if not os.path.exists(f):
        return []
    with open(f) as fh:
        return json.load(fh).get("findings", [])


def env_for_kani():
    e = dict(os.environ)
    e["CARGO_NET_OFFLINE"] = "true"
    flags = e.get("RUSTFLAGS", "")
    if GUARD not in flags:
        flags = (flags + " --cfg " + GUARD).strip()
    e["RUSTFLAGS"] = flags
    e.pop("RUSTUP_TOOLCHAIN", None)
    return e


def prepare_crate(crate):
    cdir = os.path.join(VERIF, "harness", crate)
    lock = os.path.join(REPO, "Cargo.lock")
    if os.path.exists(lock):
        shutil.copyfile(lock, os.path.join(cdir, "Cargo.lock"))
    os.makedirs(os.path.join(TARGET, crate), exist_ok=True)
    os.makedirs(os.path.join(TARGET, "logs"), exist_ok=True)
    return cdir


class CrateLock:
    """Serialises cargo-kani invocations that share a target dir (the harness filter is part
    of the compiler arguments, so two concurrent invocations would overwrite each other)."""

    def __init__(self, crate):
        os.makedirs(TARGET, exist_ok=True)
        self.path = os.path.join(TARGET, crate + ".lock")

    def __enter__(self):
        self.fh = open(self.path, "w")
        fcntl.flock(self.fh, fcntl.LOCK_EX)
        return self

    def __exit__(self, *a):
        fcntl.flock(self.fh, fcntl.LOCK_UN)
        self.fh.close()


def run_group(crate, harnesses, flags, timeout_s, mem_gb, jobs, tag, cbmc_args=None):
    """One cargo-kani invocation for a set of harnesses with the same global flags.
    Returns (json_result_or_None, log_path, wall_s, rc)."""
    cdir = prepare_crate(crate)
    out_json = os.path.join(TARGET, "logs", f"{tag}.json")
    log_path = os.path.join(TARGET, "logs", f"{tag}.log")
    if os.path.exists(out_json):
        os.remove(out_json)
    cmd = ["cargo", "kani", "--target-dir", os.path.join(TARGET, crate), "--exact"]
    for h in harnesses:
        cmd += ["--harness", h]
    cmd += ["-Z", "unstable-options", "-Z", "stubbing", "--harness-timeout", f"{int(timeout_s)}s",
            "--export-json", out_json, "--output-format", "terse", "-j", str(jobs)]
    cmd += list(flags)
    if cbmc_args:
        cmd += ["--cbmc-args"] + list(cbmc_args)  # must be last
    # hard wall cap for the whole group: build + ceil(n/jobs) waves of harnesses
    waves = (len(harnesses) + jobs - 1) // jobs
    hard = 1200 + waves * (timeout_s + 60)
    shell = f"ulimit -v {int(mem_gb * 1024 * 1024)}; exec timeout -k 20 {int(hard)} " + " ".join(
        "'" + c.replace("'", "'\\''") + "'" for c in cmd)
    t0 = time.time()
    with CrateLock(crate):
        with open(log_path, "w") as lf:
            lf.write("$ " + shell + "\n")
            lf.flush()
            p = subprocess.run(["bash", "-c", shell], cwd=cdir, env=env_for_kani(),
                               stdout=lf, stderr=subprocess.STDOUT)
    wall = time.time() - t0
    res = None
    if os.path.exists(out_json):
        try:
            with open(out_json) as fh:
                res = json.load(fh)
        except Exception:
            res = None
    return res, log_path, wall, p.returncode


def resolve_unwindset(crate, harnesses, spec):
    """Per-loop unwinding bounds (CBMC --unwindset) for loops of the code under test whose
    function name contains a given substring.  Loop ids are looked up in the goto binaries of
    the current build (`goto-instrument --show-loops`), never hard-coded.  Unwinding assertions
    stay on, so a too-small per-loop bound is reported as inconclusive, exactly like the global
    one."""
    cdir = prepare_crate(crate)
    # A 2-second verification attempt of the first harness makes kani-driver produce the linked
    # goto binary (<harness>.out) for the CURRENT source; its loop ids are the ones CBMC uses.
    cmd = ["cargo", "kani", "--target-dir", os.path.join(TARGET, crate), "--exact", "-Z", "stubbing",
           "-Z", "unstable-options", "--harness-timeout", "2s", "--output-format", "terse"]
    for h in harnesses:
        cmd += ["--harness", h]
    with CrateLock(crate):
        subprocess.run(cmd, cwd=cdir, env=env_for_kani(), stdout=subprocess.DEVNULL, stderr=subprocess.DEVNULL)
    ids = {}
    base = os.path.join(TARGET, crate)
    metas = []
    for root, _d, files in os.walk(base):
        for f in files:
            if f.endswith(".kani-metadata.json"):
                metas.append(os.path.join(root, f))
    metas.sort(key=os.path.getmtime, reverse=True)
    for mf in metas[:1]:
        try:
            md = json.load(open(mf))
        except Exception:
            continue
        for ph in md.get("proof_harnesses", []):
            if ph.get("pretty_name") not in harnesses:
                continue
            gf = ph.get("goto_file")
            if gf and gf.endswith(".symtab.out") and os.path.exists(gf[:-len(".symtab.out")] + ".out"):
                gf = gf[:-len(".symtab.out")] + ".out"
            if not gf or not os.path.exists(gf):
                continue
            out = subprocess.run(["goto-instrument", "--show-loops", gf], stdout=subprocess.PIPE,
                                 stderr=subprocess.DEVNULL, text=True).stdout
            cur = None
            for line in out.splitlines():
                m = re.match(r"Loop (\S+):", line)
                if m:
                    cur = m.group(1)
                    continue
                m = re.search(r"function (.+)$", line)
                if m and cur:
                    for key, n in spec.items():
                        if key in m.group(1):
                            ids[cur] = n
                    cur = None
    return ["--unwindset", ",".join(f"{k}:{v}" for k, v in sorted(ids.items()))] if ids else None


def classify(res, harnesses, log_path):
    """Per harness: verdict in {pass, fail, inconclusive}, reason, failed checks, covers, stats."""
    out = {}
    by_id = {}
    errs = {}
    stats = {}
    pd = {}
    if res is not None:
        for r in res.get("verification_results", {}).get("results", []):
            by_id[r["harness_id"]] = r
        for e in res.get("error_details", []):
            errs[e["harness_id"]] = e
        for c in res.get("cbmc", []):
            stats[c["harness_id"]] = c.get("cbmc_stats", {})
        for p in res.get("property_details", []):
            pd[p["harness_id"]] = p.get("property_details", {})
    logtxt = ""
    try:
        with open(log_path, errors="replace") as fh:
            logtxt = fh.read()
    except Exception:
        pass
    fallback = parse_terse_log(logtxt) if res is None else {}
    for h in harnesses:
        r = by_id.get(h)
        if r is None and h in fallback:
            out[h] = fallback[h]
            continue
        info = {"harness": h, "verdict": "inconclusive", "reason": "", "failed_checks": [],
                "covers_total": 0, "covers_satisfied": 0, "checks_total": 0,
                "checks_passed": 0, "stats": stats.get(h) or {}, "duration_s": None}
        if r is None:
            why = "no-result"
            if "error: could not compile" in logtxt or "error[E" in logtxt:
                why = "build-failed"
            elif "Failed to match the following harness" in logtxt:
                why = "harness-not-found"
            elif "internal compiler error" in logtxt or "Kani unexpectedly panicked" in logtxt:
                why = "kani-ice"
            info["reason"] = why
            out[h] = info
            continue
        info["duration_s"] = r.get("duration_ms", 0) / 1000.0
        checks = r.get("checks", [])
        covers = [c for c in checks if c.get("category") == "cover"]
        asserts = [c for c in checks if c not in covers]
        info["checks_total"] = len(asserts)
        info["checks_passed"] = sum(1 for c in asserts if c["status"] in ("Success", "Unreachable"))
        info["covers_total"] = len(covers)
        info["covers_satisfied"] = sum(1 for c in covers if c["status"] == "Satisfied")
        failed = [c for c in asserts if c["status"] == "Failure"]
        undet = [c for c in asserts if c["status"] not in ("Success", "Unreachable", "Failure")]
        e = errs.get(h, {})
        exit_status = e.get("exit_status", "")
        unwinding = [c for c in failed if "unwinding assertion" in c.get("description", "")
                     or c.get("category") == "unwind"]
        unsupported = [c for c in failed if c.get("category") in ("unsupported_construct",)
                       or "is not currently supported by Kani" in c.get("description", "")]
        # CBMC's --nan-check flags every float operation that may PRODUCE a NaN (inf * 0, ...).
        # Producing a NaN is not a panic and not a violation of any property checked here, so
        # these are not counted as failures (they are listed in the evidence instead).
        nan_gen = [c for c in failed if c.get("description", "").startswith("NaN on ")]
        info["nan_generating_ops"] = len(nan_gen)
        real_fail = [c for c in failed if c not in unwinding and c not in unsupported and c not in nan_gen]
        info["failed_checks"] = [
            {"description": c.get("description", ""), "function": c.get("function", ""),
             "file": c.get("location", {}).get("file", ""),
             "line": c.get("location", {}).get("line", ""), "category": c.get("category", "")}
            for c in real_fail]
        if exit_status == "timeout":
            info["reason"] = "timeout"
        elif exit_status not in ("", "properties_failed") and r["status"] != "Success":
            info["reason"] = "cbmc-" + str(exit_status)
        elif unwinding:
            info["reason"] = "unwinding-assertion:" + unwinding[0].get("function", "")
        elif unsupported:
            info["reason"] = "unsupported-construct:" + unsupported[0].get("description", "")[:80]
        elif real_fail:
            info["verdict"] = "fail"
            info["reason"] = "counterexample"
        elif r["status"] == "Success" or (nan_gen and not undet and exit_status in ("", "properties_failed")):
            if undet:
                info["reason"] = "undetermined-checks"
            elif info["covers_satisfied"] != info["covers_total"]:
                bad = [c.get("description", "") for c in covers if c["status"] != "Satisfied"]
                info["reason"] = "vacuity: cover not satisfied: " + "; ".join(bad)[:160]
            elif info["covers_total"] == 0:
                info["reason"] = "vacuity: no reachability cover in harness"
            else:
                info["verdict"] = "pass"
        else:
            info["reason"] = "status-" + str(r["status"]) + (":" + exit_status if exit_status else "")
        out[h] = info
    return out


def parse_terse_log(txt):
    """Fallback when kani-driver died before exporting JSON (it panics when a CBMC process is
    killed mid-output): recover per-harness verdicts from the terse log.  Anything not
    positively identified stays inconclusive."""
    out = {}
    cur = {}          # thread -> harness
    blocks = {}       # harness -> list of lines
    active = None
    for line in txt.splitlines():
        m = re.match(r"Thread (\d+): Checking harness (\S+?)\.\.\.", line)
        if m:
            cur[m.group(1)] = m.group(2)
            active = None
            continue
        m = re.match(r"Thread (\d+):\s*$", line)
        if m:
            active = cur.get(m.group(1))
            if active:
                blocks[active] = []
            continue
        if line.startswith("Thread ") or line.startswith("thread '"):
            active = None
            continue
        if active:
            blocks[active].append(line)
    for h, lines in blocks.items():
        t = "\n".join(lines)
        info = {"harness": h, "verdict": "inconclusive", "reason": "fallback-log", "failed_checks": [],
                "covers_total": 0, "covers_satisfied": 0, "checks_total": 0, "checks_passed": 0,
                "stats": {}, "duration_s": None}
        m = re.search(r"\*\* (\d+) of (\d+) failed", t)
        if m:
            info["checks_total"] = int(m.group(2))
            info["checks_passed"] = int(m.group(2)) - int(m.group(1))
        m = re.search(r"\*\* (\d+) of (\d+) cover properties satisfied", t)
        if m:
            info["covers_satisfied"], info["covers_total"] = int(m.group(1)), int(m.group(2))
        m = re.search(r"Verification Time: ([0-9.]+)s", t)
        if m:
            info["duration_s"] = float(m.group(1))
        fails = re.findall(r"Failed Checks: (.*)\n File: \"([^\"]*)\", line (\d+), in (\S+)", t)
        if "VERIFICATION:- SUCCESSFUL" in t:
            if info["covers_total"] > 0 and info["covers_total"] == info["covers_satisfied"] and "undetermined" not in t:
                info["verdict"], info["reason"] = "pass", ""
            else:
                info["reason"] = "vacuity: cover not satisfied (fallback log)"
        elif "CBMC failed" in t or "out of memory" in t or "timed out" in t:
            info["reason"] = "cbmc-crash-or-timeout"
        elif fails:
            if any("unwinding assertion" in f[0] for f in fails):
                info["reason"] = "unwinding-assertion:" + fails[0][3]
            else:
                info["verdict"], info["reason"] = "fail", "counterexample"
                info["failed_checks"] = [{"description": f[0], "function": f[3], "file": f[1], "line": f[2],
                                          "category": "assertion"} for f in fails]
        out[h] = info
    return out


# ------------------------------------------------------------------ replay

PLAYBACK_RE = re.compile(r"```\s*\n(.*?)```", re.S)


def extract_playback(crate, harness, flags, timeout_s, mem_gb, cbmc_args=None):
    """Re-run one failing harness alone with --concrete-playback=print, return the unit test text."""
    cdir = prepare_crate(crate)
    tag = "pb_" + harness.replace("::", "__")
    log_path = os.path.join(TARGET, "logs", tag + ".log")
    cmd = ["cargo", "kani", "--target-dir", os.path.join(TARGET, crate), "--exact", "--harness", harness,
           "-Z", "stubbing", "-Z", "concrete-playback", "--concrete-playback=print",
           "--output-format", "terse"] + list(flags)
    if cbmc_args:
        cmd += ["-Z", "unstable-options", "--cbmc-args"] + list(cbmc_args)
    shell = f"ulimit -v {int(mem_gb * 1024 * 1024)}; exec timeout -k 20 {int(timeout_s + 600)} " + " ".join(
        "'" + c.replace("'", "'\\''") + "'" for c in cmd)
    with CrateLock(crate):
        with open(log_path, "w") as lf:
            subprocess.run(["bash", "-c", shell], cwd=cdir, env=env_for_kani(), stdout=lf,
                           stderr=subprocess.STDOUT)
    txt = open(log_path, errors="replace").read()
    tests = []
    # Kani prints: "Concrete playback unit test for `harness`:\n```\n/// Test generated ...\n#[test]\nfn kani_concrete_playback_...() {...}\n```"
    for m in PLAYBACK_RE.finditer(txt):
        body = m.group(1)
        if "kani_concrete_playback" in body and "Check for `cover`" not in body:
            if body not in tests:
                tests.append(body)
    return tests, log_path


def native_replay(crate, harness, tests, release=False):
    """Copy the harness crate to a scratch dir, append the generated unit tests to the module
    of the harness, run `cargo kani playback`. Returns (reproduced: bool|None, log_path, names)."""
    src = os.path.join(VERIF, "harness", crate)
    # sibling of the harness crate so that relative path dependencies keep resolving
    work = os.path.join(VERIF, "harness", "_replay_" + crate)
    if os.path.exists(work):
        shutil.rmtree(work)
    shutil.copytree(src, work, ignore=shutil.ignore_patterns("target", "Cargo.lock", "harnesses.json"))
    # native replay runs against the REAL environment: the real `bytes` crate instead of the
    # model (and, since #[kani::stub] is inert outside verification, the real String::from_utf8)
    ct = os.path.join(work, "Cargo.toml")
    txt = open(ct).read()
    txt2 = re.sub(r'bytes\s*=\s*\{[^}]*shims/bytes[^}]*\}', 'bytes = "1"', txt)
    if txt2 != txt:
        open(ct, "w").write(txt2)
    lock = os.path.join(REPO, "Cargo.lock")
    if os.path.exists(lock):
        shutil.copyfile(lock, os.path.join(work, "Cargo.lock"))
    mod = harness.split("::")[0] if "::" in harness else None
    modfile = os.path.join(work, "src", (mod + ".rs") if mod else "lib.rs")
    if not os.path.exists(modfile):
        modfile = os.path.join(work, "src", mod, "mod.rs")
    names = []
    with open(modfile, "a") as fh:
        fh.write("\n\n// ---- concrete playback tests appended by vcheck ----\n")
        for t in tests:
            fh.write(t + "\n")
            names += re.findall(r"fn (kani_concrete_playback_\w+)", t)
    log_path = os.path.join(TARGET, "logs", "replay_" + harness.replace("::", "__") + ("_release" if release else "") + ".log")
    env = env_for_kani()
    env["CARGO_TARGET_DIR"] = os.path.join(TARGET, "replay_target")
    results = {}
    with open(log_path, "w") as lf:
        for n in names:
            cmd = ["cargo", "kani", "playback", "-Z", "concrete-playback"]
            if release:
                cmd += ["--release"]
            cmd += ["--", n, "--exact", "--nocapture"] if False else ["--", n]
            p = subprocess.run(cmd, cwd=work, env=env, stdout=subprocess.PIPE, stderr=subprocess.STDOUT, text=True,
                               timeout=3600)
            lf.write("$ " + " ".join(cmd) + "\n" + p.stdout + "\n")
            out = p.stdout
            if re.search(r"test result: FAILED|panicked at", out) and "could not compile" not in out:
                results[n] = True
            elif re.search(r"test result: ok", out):
                results[n] = False
            else:
                results[n] = None
    return results, log_path, names


# ------------------------------------------------------------------ main check

def known_match(known, pid, harness, failed_checks):
    """Return the known-finding entries covering *all* failed checks of this harness, else None."""
    ents = [k for k in known if k.get("property") == pid and k.get("harness") == harness
            and k.get("status", "known") == "known"]
    if not ents:
        return None
    matched = []
    for fc in failed_checks:
        hit = None
        for k in ents:
            if k.get("check", "\0") in fc["description"]:
                hit = k
                break
        if hit is None:
            return None
        if hit not in matched:
            matched.append(hit)
    return matched


def write_evidence(pid, tier, seed, cov, assumptions, wall, violations, partial=False):
    ev = {
        "property_id": pid, "tier": tier, "seed": seed, "level": "model_checking",
        "coverage": cov, "assumptions": assumptions, "wall_s": round(wall, 2),
        "violations": violations,
    }
    os.makedirs(os.path.join(VERIF, "evidence"), exist_ok=True)
    # a run restricted with --only (debugging, seed testing) must not replace the evidence of
    # the registered check: it goes to <id>.partial.json (git-ignored)
    path = os.path.join(VERIF, "evidence", pid + (".partial.json" if partial else ".json"))
    tmp = path + ".tmp"
    with open(tmp, "w") as fh:
        json.dump(ev, fh, indent=1, sort_keys=False)
        fh.write("\n")
    os.replace(tmp, path)
    return path


def check(pid, tier, only=None, jobs=None):
    t0 = time.time()
    seed = int(os.environ.get("VERIF_SEED", "0") or 0)
    reg = load_registry()
    if pid not in reg:
        log(f"unknown or unclaimed property {pid}")
        return 2
    known = load_known()
    jobs = jobs or int(os.environ.get("VERIF_JOBS", "12"))
    all_info = {}
    meta = {"functions_encoded": [], "bounds": [], "stubs": [], "assumptions": [], "outside": []}
    groups = []
    for crate, spec in reg[pid].items():
        for k in ("functions_encoded", "bounds", "stubs", "assumptions", "outside"):
            for x in spec.get(k, []):
                if x not in meta[k]:
                    meta[k].append(x)
        bygroup = {}
        for h in spec["harnesses"]:
            if tier == "quick" and h.get("tier", "quick") != "quick":
                continue
            if only and not any(o in h["name"] for o in only):
                continue
            flags = tuple(h.get("flags", spec.get("flags", [])))
            uw = tuple(sorted((h.get("unwindset") or {}).items()))
            bygroup.setdefault((flags, uw), []).append(h)
        for (flags, uw), hs in bygroup.items():
            groups.append((crate, flags, hs, spec, dict(uw)))
    if not groups:
        log(f"no harnesses registered for {pid} tier={tier}")
        return 2
    hmeta = {}
    gi = 0
    logs = []
    for crate, flags, hs, spec, uw in groups:
        gi += 1
        names = [h["name"] for h in hs]
        # deterministic permutation by seed (no randomness influences the verdict)
        if seed:
            names = names[seed % len(names):] + names[:seed % len(names)]
        for h in hs:
            hmeta[h["name"]] = dict(h, crate=crate, flags=list(flags))
            if uw:
                hmeta[h["name"]]["unwindset"] = uw
        tmo = max(h.get("timeout", spec.get("timeout", 600 if tier == "quick" else 1800)) for h in hs)
        mem = max(h.get("mem_gb", spec.get("mem_gb", 12 if tier == "quick" else 24)) for h in hs)
        j = min(jobs, len(names), max(1, int(56 // mem)))
        tag = f"{pid}_{tier}_{crate}_{gi}"
        log(f"[{pid}] crate={crate} harnesses={len(names)} jobs={j} timeout={tmo}s mem={mem}G flags={' '.join(flags) or '-'}")
        cbmc_args = resolve_unwindset(crate, names, uw) if uw else None
        if uw:
            log(f"[{pid}] per-loop unwinding: {cbmc_args}")
        for n_ in names:
            hmeta[n_]["cbmc_args"] = cbmc_args
        res, log_path, wall, rc = run_group(crate, names, flags, tmo, mem, j, tag, cbmc_args)
        logs.append(log_path)
        info = classify(res, names, log_path)
        for h, i in info.items():
            i["group_log"] = log_path
            all_info[h] = i
            log(f"  {i['verdict']:12s} {h}  {i['reason']}  [{i['duration_s']}s solver={(i.get('stats') or {}).get('runtime_solver_s')}]")

    # ---- decide
    violations = []
    known_hits = []
    inconclusive = []
    extra_fails = []
    n_replayed = 0
    # cheapest failing harness first, so the replayed one is the quickest to reproduce
    order = sorted(all_info.items(), key=lambda kv: (kv[1].get("duration_s") or 0))
    for h, i in order:
        if i["verdict"] == "pass":
            continue
        if i["verdict"] == "inconclusive":
            inconclusive.append((h, i["reason"]))
            continue
        km = known_match(known, pid, h, i["failed_checks"])
        if km is not None:
            for k in km:
                known_hits.append((h, k))
            i["verdict"] = "known-finding"
            continue
        # unknown failure: replay natively before reporting (at most MAX_REPLAYS reproduced
        # violations are replayed per run; further solver failures are reported as such)
        if len(violations) >= int(os.environ.get("VERIF_MAX_REPLAYS", "1")):
            i["verdict"] = "fail-unreplayed"
            i["reason"] = "counterexample (replay skipped: another violation of this run already reproduced)"
            extra_fails.append(h)
            continue
        hm = hmeta[h]
        # trace extraction needs far more address space than the verdict run (kani-driver parses
        # the full CBMC trace), so it gets a generous cap
        tests, pblog = extract_playback(hm["crate"], h, hm["flags"], hm.get("timeout", 600),
                                        max(40, hm.get("mem_gb", 16)), hm.get("cbmc_args"))
        rdir = os.path.join(VERIF, "replay", pid)
        os.makedirs(rdir, exist_ok=True)
        rpath = os.path.join(rdir, h.replace("::", "__") + ".rs")
        reproduced = None
        rlog = ""
        if tests:
            try:
                results, rlog, names = native_replay(hm["crate"], h, tests)
                n_replayed += len(results)
                if any(v is True for v in results.values()):
                    reproduced = True
                elif results and all(v is False for v in results.values()):
                    reproduced = False
            except Exception as ex:  # noqa
                rlog = f"replay crashed: {ex}"
        with open(rpath, "w") as fh:
            fh.write(f"// property {pid}, harness {h} (crate harness/{hm['crate']})\n")
            fh.write("// failed checks:\n")
            for fc in i["failed_checks"]:
                fh.write(f"//   {fc['description']}  at {fc['file']}:{fc['line']} in {fc['function']}\n")
            fh.write(f"// native replay: reproduced={reproduced}; log {rlog}\n")
            fh.write(f"// re-run: bin/vcheck {pid} --replay {rpath}\n")
            fh.write("// Append the test(s) below to the harness module and run\n")
            fh.write("//   RUSTFLAGS='--cfg rjwalters_vibesql_verif' cargo kani playback -Z concrete-playback --test <name>\n\n")
            for t in tests:
                fh.write(t + "\n")
        i["replay"] = rpath
        i["reproduced"] = reproduced
        if reproduced:
            violations.append((h, rpath))
        else:
            i["verdict"] = "inconclusive"
            i["reason"] = "replay-mismatch" if reproduced is False else "replay-unavailable"
            inconclusive.append((h, i["reason"] + f" (see {pblog})"))

    # ---- evidence
    decided = [i for i in all_info.values() if i["verdict"] in ("pass", "fail", "fail-unreplayed", "known-finding")]
    nontrivial = [i for i in all_info.values()
                  if i["verdict"] in ("pass", "known-finding") and i["covers_total"] > 0
                  and i["covers_satisfied"] == i["covers_total"] and i["checks_total"] > 0]
    obligations = sum(i["checks_total"] for i in all_info.values())
    discharged = sum(i["checks_passed"] for i in all_info.values() if i["verdict"] in ("pass", "known-finding"))
    solver_time = sum((i["stats"].get("runtime_solver_s") or 0) for i in all_info.values())
    symex_time = sum((i["stats"].get("runtime_symex_s") or 0) for i in all_info.values())
    samples = []
    for h, i in all_info.items():
        hm = hmeta[h]
        samples.append({
            "harness": h, "crate": "harness/" + hm["crate"], "what": hm.get("desc", ""),
            "bound": hm.get("bound", ""), "verdict": i["verdict"], "reason": i["reason"],
            "cbmc_checks": i["checks_total"], "cbmc_checks_passed": i["checks_passed"],
            "covers": f"{i['covers_satisfied']}/{i['covers_total']}",
            "solver_s": i["stats"].get("runtime_solver_s"), "symex_s": i["stats"].get("runtime_symex_s"),
            "vccs": i["stats"].get("vccs_generated"), "wall_s": i["duration_s"],
            "flags": hm["flags"],
        })
    cov = {
        "evaluations": len(decided),
        "distinct_nontrivial": len(nontrivial),
        "rule": "one evaluation = one Kani proof harness decided by CBMC/CaDiCaL over ALL values of its "
                "symbolic inputs within the stated bound (not a sampled run); a harness counts as distinct and "
                "non-trivial when it has a distinct name/body, at least one assertion and every kani::cover! "
                "reachability witness in it was SATISFIED (so its assumptions are satisfiable and the "
                "assertions are reached).",
        "samples": samples,
        "states": int(sum((i["stats"].get("size_program_expression") or 0) for i in all_info.values())) or len(decided),
        "transitions": int(sum((i["stats"].get("vccs_generated") or 0) for i in all_info.values())) or len(decided),
        "traces_validated_against_impl": n_replayed,
        "states_transitions_meaning": "bounded model checking has no explicit state graph: 'states' is the number of "
                                      "symbolic-execution steps (CBMC 'size of program expression', summed over the "
                                      "harnesses of this run), 'transitions' the number of verification conditions CBMC "
                                      "generated from them, 'traces_validated_against_impl' the number of solver "
                                      "counterexample traces replayed natively (concrete playback) in this run",
        "obligations": obligations,
        "discharged": discharged,
        "exhaustive": False,
        "explanation": "Bounded model checking of the real Rust code compiled from /repo's working tree by "
                       "Kani 0.68 (MIR -> GOTO -> CBMC 6.11 -> SAT). obligations/discharged count CBMC property "
                       "checks (assertions, overflow, bounds, unwinding assertions) in the harnesses of this tier.",
        "functions_encoded": meta["functions_encoded"],
        "bounds": meta["bounds"],
        "outside_the_claim": meta["outside"],
        "stubs": meta["stubs"],
        "solver_time_s": round(solver_time, 2),
        "symex_time_s": round(symex_time, 2),
        "queries_discharged": len(decided),
        "inconclusive": [{"harness": h, "reason": r} for h, r in inconclusive],
        "known_findings_hit": [{"harness": h, "what": k.get("what", "")} for h, k in known_hits],
        "engine": "kani 0.68.0 / cbmc 6.11.0 / cadical",
        "logs": logs,
    }
    wall = time.time() - t0
    write_evidence(pid, tier, seed, cov, meta["assumptions"] + ["stubs: " + s for s in meta["stubs"]],
                   wall, len(violations), partial=bool(only))

    for h, k in known_hits:
        log(f"KNOWN-FINDING: property={pid} {k.get('what', '')} [harness {h}]")
    rc = 0
    if violations:
        for h, rpath in violations:
            log(f"VIOLATION property={pid} replay={rpath}")
        for h in extra_fails:
            log(f"  also failed (solver counterexample, not replayed): {h}")
        rc = 1
    elif inconclusive:
        for h, r in inconclusive:
            log(f"INCONCLUSIVE property={pid} harness={h} reason={r}")
        rc = 2
    log(f"[{pid}] tier={tier} harnesses={len(all_info)} pass={sum(1 for i in all_info.values() if i['verdict']=='pass')} "
        f"known={len(known_hits)} violations={len(violations)} inconclusive={len(inconclusive)} "
        f"solver={solver_time:.1f}s wall={wall:.1f}s -> exit {rc}")
    return rc


def replay_cmd(pid, path):
    """Re-run the recorded concrete playback tests natively against /repo's current tree."""
    txt = open(path).read()
    m = re.search(r"harness (\S+) \(crate harness/(\w+)\)", txt)
    if not m:
        log("cannot parse replay file")
        return 2
    harness, crate = m.group(1), m.group(2)
    tests = ["#[test]" + t for t in txt.split("#[test]")[1:]]
    results, rlog, names = native_replay(crate, harness, tests)
    log(f"replay of {harness}: {results} (log {rlog})")
    if any(v is True for v in results.values()):
        log(f"VIOLATION property={pid} replay={path}")
        return 1
    if results and all(v is False for v in results.values()):
        return 0
    return 2


def main(argv):
    import argparse
    ap = argparse.ArgumentParser()
    ap.add_argument("property")
    ap.add_argument("--tier", default=os.environ.get("VERIF_TIER", "quick"))
    ap.add_argument("--replay")
    ap.add_argument("--only", action="append")
    ap.add_argument("--jobs", type=int)
    a = ap.parse_args(argv)
    if a.replay:
        return replay_cmd(a.property, a.replay)
    if a.tier not in ("quick", "thorough"):
        a.tier = "quick"
    return check(a.property, a.tier, a.only, a.jobs)


if __name__ == "__main__":
    sys.exit(main(sys.argv[1:]))
