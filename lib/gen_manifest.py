#!/usr/bin/env python3
"""Regenerates MANIFEST.json from lib/manifest_src.json (claims text) + the harness registries."""
import json, os, sys
V = os.path.dirname(os.path.dirname(os.path.abspath(__file__)))
src = json.load(open(os.path.join(V, "lib", "manifest_src.json")))
sys.path.insert(0, os.path.join(V, "lib"))
import vk
reg = vk.load_registry()
props = [json.loads(l)["id"] for l in open(os.path.join(V, "properties.jsonl"))]
checks = []
na = []
for pid in props:
    c = src["claims"].get(pid)
    if c and pid in reg:
        checks.append({
            "property_id": pid,
            "quick_cmd": f"bin/vcheck {pid} --tier quick",
            "thorough_cmd": f"bin/vcheck {pid} --tier thorough",
            "evidence_file": f"/verif/evidence/{pid}.json",
            "replay_cmd_template": f"bin/vcheck {pid} --replay {{path}}",
            "engine": "kani-cbmc",
            "level_claimed": {"category": "model_checking", "text": c["text"], "design_ref": c.get("design_ref", "DESIGN.md section 6")},
            "level_note": c["note"],
            "technique": c.get("technique", "bounded model checking of the real Rust code: Kani 0.68 harnesses (kani::any inputs, #[kani::unwind], unwinding assertions on) decided by CBMC 6.11 + CaDiCaL; counterexamples replayed natively via concrete playback"),
        })
    else:
        na.append({"property_id": pid, "reason": src["not_applicable"][pid]})
m = {
    "version": 1,
    "setup_cmd": src["setup_cmd"],
    "hooks": src["hooks"],
    "engines": src["engines"],
    "checks": checks,
    "notes": src["notes"],
    "not_applicable": na,
}
for e in m["engines"]:
    e["serves_properties"] = [c["property_id"] for c in checks]
json.dump(m, open(os.path.join(V, "MANIFEST.json"), "w"), indent=1)
open(os.path.join(V, "MANIFEST.json"), "a").write("\n")
print("claims:", [c["property_id"] for c in checks])
print("n/a:", [n["property_id"] for n in na])
