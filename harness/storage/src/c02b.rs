//! C02 (continued) — IN-list point lookups on a small in-memory index.
//!
//! `IndexData::multi_lookup` crashes the Kani compiler when its disk-backed arm is reachable
//! (parking_lot mutex / PageManager).  The arm is cut with stubs that ASSERT unreachability:
//! the harness builds an `IndexData::InMemory`, so the solver proves the cut instead of
//! assuming it.
use std::collections::BTreeMap;
use std::sync::Arc;

use vibesql_storage::btree::BTreeIndex;
use vibesql_storage::database::indexes::verif_hooks as ix;
use vibesql_storage::database::indexes::IndexData;
use vibesql_storage::StorageError;
use vibesql_types::SqlValue;

pub fn stub_acquire_lock(
    _btree: &Arc<parking_lot::Mutex<BTreeIndex>>,
) -> Result<parking_lot::MutexGuard<'_, BTreeIndex>, StorageError> {
    assert!(false, "the disk-backed arm is unreachable for an in-memory index");
    Err(StorageError::NotImplemented(String::new()))
}
pub fn stub_btree_multi_lookup(_this: &BTreeIndex, _keys: &[Vec<SqlValue>]) -> Result<Vec<usize>, StorageError> {
    assert!(false, "the disk-backed arm is unreachable for an in-memory index");
    Err(StorageError::NotImplemented(String::new()))
}

/// IN-list probe on a one-key in-memory index: every row of a matching key is returned exactly
/// once, whatever the order and multiplicity of the probe values.
#[kani::proof]
#[kani::unwind(6)]
#[kani::stub(vibesql_storage::database::indexes::index_metadata::acquire_btree_lock, stub_acquire_lock)]
#[kani::stub(vibesql_storage::btree::BTreeIndex::multi_lookup, stub_btree_multi_lookup)]
fn c02_multi_lookup_one_key() {
    let k: i64 = kani::any();
    let mut data: BTreeMap<Vec<SqlValue>, Vec<usize>> = BTreeMap::new();
    data.insert(vec![ix::normalize_for_comparison(&SqlValue::Integer(k))], vec![7]);
    let idx = IndexData::InMemory { data };
    let (p, q, r): (i64, i64, i64) = (kani::any(), kani::any(), kani::any());
    let probes = [SqlValue::Integer(p), SqlValue::Integer(q), SqlValue::Integer(r)];
    let out = idx.multi_lookup(&probes);
    let hit = p == k || q == k || r == k;
    if hit {
        assert!(out.len() == 1 && out[0] == 7, "a matching key's row is returned exactly once");
    } else {
        assert!(out.is_empty(), "no row is returned for probes that match no key");
    }
    kani::cover!(p == k && r == k && q != k, "repeated probe value, non-adjacent");
    kani::cover!(!hit, "miss");
    std::mem::forget((out, idx));
}
