//! C18 / C20 — binary value codec: round-trip and robustness on arbitrary bytes.
//!
//! Functions encoded (real code, public API of vibesql_storage::persistence::binary):
//! `value::{write_sql_value, read_sql_value}`, `io::{read_*/write_*, read_string,
//! write_string}`, `format::{TypeTag::from_u8, read_header, write_header}`, instantiated at
//! `W = Vec<u8>` and `R = &[u8]`.
use vibesql_storage::persistence::binary::{format, io, value};
use vibesql_types::SqlValue;

use crate::stubs::*;

fn bits_eq(a: &SqlValue, b: &SqlValue) -> bool {
    match (a, b) {
        (SqlValue::Null, SqlValue::Null) => true,
        (SqlValue::Integer(x), SqlValue::Integer(y)) => x == y,
        (SqlValue::Smallint(x), SqlValue::Smallint(y)) => x == y,
        (SqlValue::Bigint(x), SqlValue::Bigint(y)) => x == y,
        (SqlValue::Unsigned(x), SqlValue::Unsigned(y)) => x == y,
        (SqlValue::Numeric(x), SqlValue::Numeric(y)) => x.to_bits() == y.to_bits(),
        (SqlValue::Double(x), SqlValue::Double(y)) => x.to_bits() == y.to_bits(),
        (SqlValue::Float(x), SqlValue::Float(y)) => x.to_bits() == y.to_bits(),
        (SqlValue::Real(x), SqlValue::Real(y)) => x.to_bits() == y.to_bits(),
        (SqlValue::Boolean(x), SqlValue::Boolean(y)) => x == y,
        _ => false,
    }
}

/// read(write(v)) is bit-identical to v and consumes exactly the bytes written, for every
/// scalar variant (NaN payloads, -0.0, infinities and extreme integers included).
macro_rules! roundtrip {
    ($name:ident, $mk:expr) => {
        #[kani::proof]
        #[kani::unwind(12)]
        #[kani::stub(std::fmt::format, format_stub)]
        fn $name() {
            let v: SqlValue = $mk;
            let mut buf: Vec<u8> = Vec::with_capacity(16);
            let w = value::write_sql_value(&mut buf, &v);
            assert!(w.is_ok(), "writing to a Vec never fails");
            let n = buf.len();
            assert!(n >= 1 && n <= 9, "encoded scalar is tag + payload");
            // a tail byte after the value must be left unread
            buf.push(0xA5);
            let mut rd: &[u8] = &buf[..];
            let r = value::read_sql_value(&mut rd);
            match &r {
                Ok(back) => assert!(bits_eq(back, &v), "read(write(v)) is bit-identical to v"),
                Err(_) => assert!(false, "a freshly written value reads back"),
            }
            assert!(rd.len() == 1, "exactly the written bytes are consumed");
            kani::cover!(true, "reached");
            std::mem::forget((r, buf, w));
        }
    };
}
roundtrip!(c18_rt_null, SqlValue::Null);
roundtrip!(c18_rt_integer, SqlValue::Integer(kani::any()));
roundtrip!(c18_rt_smallint, SqlValue::Smallint(kani::any()));
roundtrip!(c18_rt_bigint, SqlValue::Bigint(kani::any()));
roundtrip!(c18_rt_unsigned, SqlValue::Unsigned(kani::any()));
roundtrip!(c18_rt_numeric, SqlValue::Numeric(kani::any()));
roundtrip!(c18_rt_double, SqlValue::Double(kani::any()));
roundtrip!(c18_rt_float, SqlValue::Float(kani::any()));
roundtrip!(c18_rt_real, SqlValue::Real(kani::any()));
roundtrip!(c18_rt_boolean, SqlValue::Boolean(kani::any()));

/// Strings: Varchar/Character of N ASCII bytes round-trip with type tag and content.
fn string_roundtrip<const N: usize>(character: bool) {
    let bytes: [u8; N] = kani::any();
    let mut s = String::with_capacity(N);
    let mut i = 0;
    while i < N {
        kani::assume(bytes[i] < 0x80);
        s.push(bytes[i] as char);
        i += 1;
    }
    let v = if character { SqlValue::Character(s) } else { SqlValue::Varchar(s) };
    let mut buf: Vec<u8> = Vec::with_capacity(16);
    let w = value::write_sql_value(&mut buf, &v);
    assert!(w.is_ok(), "writing to a Vec never fails");
    assert!(buf.len() == 1 + 4 + N, "tag + u32 length + bytes");
    buf.push(0xA5);
    let mut rd: &[u8] = &buf[..];
    let r = value::read_sql_value(&mut rd);
    let ok = match (&r, character) {
        (Ok(SqlValue::Character(t)), true) | (Ok(SqlValue::Varchar(t)), false) => {
            let mut same = t.len() == N;
            let j: usize = kani::any();
            if same && j < N {
                same = t.as_bytes()[j] == bytes[j];
            }
            same
        }
        _ => false,
    };
    assert!(ok, "a string value reads back with the same type and content");
    assert!(rd.len() == 1, "exactly the written bytes are consumed");
    kani::cover!(true, "reached");
    std::mem::forget((r, buf, w, v));
}

#[kani::proof]
#[kani::unwind(12)]
#[kani::stub(std::fmt::format, format_stub)]
#[kani::stub(std::string::String::from_utf8, from_utf8_naive)]
#[kani::stub(std::vec::from_elem, from_elem_checked)]
fn c18_rt_varchar3() {
    string_roundtrip::<3>(false);
}

#[kani::proof]
#[kani::unwind(12)]
#[kani::stub(std::fmt::format, format_stub)]
#[kani::stub(std::string::String::from_utf8, from_utf8_naive)]
#[kani::stub(std::vec::from_elem, from_elem_checked)]
fn c18_rt_character2() {
    string_roundtrip::<2>(true);
}

#[kani::proof]
#[kani::unwind(12)]
#[kani::stub(std::fmt::format, format_stub)]
#[kani::stub(std::string::String::from_utf8, from_utf8_naive)]
fn c18_rt_varchar0() {
    string_roundtrip::<0>(false);
}

/// Header: write_header output is accepted by read_header and is 16 bytes.
#[kani::proof]
#[kani::unwind(20)]
#[kani::stub(std::fmt::format, format_stub)]
fn c18_header_roundtrip() {
    let mut buf: Vec<u8> = Vec::with_capacity(32);
    assert!(format::write_header(&mut buf).is_ok(), "writing to a Vec never fails");
    assert!(buf.len() == 16, "header is 16 bytes");
    buf.push(0xA5);
    let mut rd: &[u8] = &buf[..];
    let r = format::read_header(&mut rd);
    assert!(r.is_ok(), "a freshly written header is accepted");
    assert!(rd.len() == 1, "exactly the header is consumed");
    kani::cover!(true, "reached");
    std::mem::forget((r, buf));
}

// ------------------------------------------------------------------ C20: arbitrary bytes

/// read_sql_value on EVERY byte buffer of length L whose first byte is the (concrete) type tag
/// `TAG` (one harness per tag x length, so that CBMC only explores that tag's arm): returns
/// Ok or Err without panicking, never requests an allocation beyond the remaining input,
/// never reads past the buffer, and a decoded string accounts for exactly the bytes consumed.
fn read_value_total<const L: usize>(tag: u8) {
    let mut bytes: [u8; L] = kani::any();
    if L > 0 {
        bytes[0] = tag;
    }
    unsafe {
        ALLOC_LIMIT = L;
    }
    let mut rd: &[u8] = &bytes[..];
    #[cfg(test)]
    track::reset();
    let r = value::read_sql_value(&mut rd);
    #[cfg(test)]
    assert!(track::max() <= native_budget(L), "allocation request is bounded by the remaining input (native replay)");
    assert!(rd.len() <= L, "reader never grows");
    match &r {
        Ok(SqlValue::Varchar(s)) | Ok(SqlValue::Character(s)) => {
            assert!(5 + s.len() + rd.len() == L, "string value consumed tag + length + its bytes");
        }
        Ok(_) => {}
        Err(_) => {}
    }
    kani::cover!(true, "reached");
    std::mem::forget(r);
}

macro_rules! read_tag_len {
    ($name:ident, $tag:expr, $l:expr, $unw:expr) => {
        #[kani::proof]
        #[kani::unwind($unw)]
        #[kani::stub(std::fmt::format, format_stub)]
        #[kani::stub(std::string::String::from_utf8, from_utf8_naive)]
        #[kani::stub(std::vec::from_elem, from_elem_checked)]
        #[kani::stub(<vibesql_types::Date as std::str::FromStr>::from_str, date_from_str_model)]
        #[kani::stub(<vibesql_types::Time as std::str::FromStr>::from_str, time_from_str_model)]
        #[kani::stub(<vibesql_types::Timestamp as std::str::FromStr>::from_str, timestamp_from_str_model)]
        #[kani::stub(<vibesql_types::Interval as std::str::FromStr>::from_str, interval_from_str_model)]
        fn $name() {
            read_value_total::<$l>($tag);
        }
    };
}
read_tag_len!(c20_read_empty, 0x00, 0, 4);
read_tag_len!(c20_read_varchar_len1, 0x11, 1, 5);
read_tag_len!(c20_read_varchar_len3, 0x11, 3, 7);
read_tag_len!(c20_read_varchar_len5, 0x11, 5, 9);
read_tag_len!(c20_read_varchar_len6, 0x11, 6, 10);
read_tag_len!(c20_read_varchar_len7, 0x11, 7, 11);
read_tag_len!(c20_read_varchar_len9, 0x11, 9, 13);
read_tag_len!(c20_read_character_len7, 0x10, 7, 11);
read_tag_len!(c20_read_integer_len5, 0x02, 5, 9);
read_tag_len!(c20_read_integer_len9, 0x02, 9, 13);
read_tag_len!(c20_read_smallint_len2, 0x01, 2, 6);
read_tag_len!(c20_read_smallint_len3, 0x01, 3, 7);
read_tag_len!(c20_read_bigint_len9, 0x03, 9, 13);
read_tag_len!(c20_read_unsigned_len8, 0x04, 8, 12);
read_tag_len!(c20_read_numeric_len9, 0x05, 9, 13);
read_tag_len!(c20_read_float_len5, 0x06, 5, 9);
read_tag_len!(c20_read_real_len4, 0x07, 4, 8);
read_tag_len!(c20_read_null_len1, 0x00, 1, 5);
read_tag_len!(c20_read_double_len9, 0x08, 9, 13);
read_tag_len!(c20_read_boolean_len2, 0x20, 2, 6);
read_tag_len!(c20_read_date_len7, 0x30, 7, 11);
read_tag_len!(c20_read_interval_len6, 0x33, 6, 10);
read_tag_len!(c20_read_unknown_tag_len4, 0x55, 4, 8);

/// read_header on every buffer of length L (L <= 16): Ok or Err, no panic.
fn read_header_total<const L: usize>() {
    let bytes: [u8; L] = kani::any();
    let mut rd: &[u8] = &bytes[..];
    let r = format::read_header(&mut rd);
    if r.is_ok() {
        assert!(L >= 16, "a header needs 16 bytes");
        assert!(bytes[0] == b'V' && bytes[1] == b'B' && bytes[2] == b'S' && bytes[3] == b'Q' && bytes[4] == b'L', "magic");
        assert!(bytes[5] <= format::VERSION, "version not newer than supported");
    }
    kani::cover!(r.is_err(), "rejected");
    kani::cover!(r.is_ok() || L < 16, "accepted");
    std::mem::forget(r);
}

#[kani::proof]
#[kani::unwind(20)]
#[kani::stub(std::fmt::format, format_stub)]
#[kani::stub(std::string::String::from_utf8_lossy, lossy_stub)]
fn c20_read_header_len16() {
    read_header_total::<16>();
}

#[kani::proof]
#[kani::unwind(20)]
#[kani::stub(std::fmt::format, format_stub)]
#[kani::stub(std::string::String::from_utf8_lossy, lossy_stub)]
fn c20_read_header_len7() {
    read_header_total::<7>();
}

/// TypeTag::from_u8 accepts exactly the 16 documented tags.
#[kani::proof]
#[kani::unwind(4)]
#[kani::stub(std::fmt::format, format_stub)]
fn c20_type_tag_total() {
    let t: u8 = kani::any();
    let r = format::TypeTag::from_u8(t);
    let known = matches!(t, 0x00..=0x08 | 0x10 | 0x11 | 0x20 | 0x30..=0x33);
    assert!(r.is_ok() == known, "exactly the documented tags are accepted");
    if let Ok(tag) = &r {
        assert!(*tag as u8 == t, "tag value round-trips");
    }
    kani::cover!(r.is_ok(), "known tag");
    kani::cover!(r.is_err(), "unknown tag");
    std::mem::forget(r);
}

/// read_string on every L-byte buffer: the allocation it requests is bounded by the input.
fn read_string_total<const L: usize>() {
    let bytes: [u8; L] = kani::any();
    unsafe {
        ALLOC_LIMIT = L;
    }
    let mut rd: &[u8] = &bytes[..];
    #[cfg(test)]
    track::reset();
    let r = io::read_string(&mut rd);
    #[cfg(test)]
    assert!(track::max() <= native_budget(L), "allocation request is bounded by the remaining input (native replay)");
    if let Ok(s) = &r {
        assert!(4 + s.len() + rd.len() == L, "string consumed length prefix + its bytes");
    }
    kani::cover!(true, "reached");
    std::mem::forget(r);
}
macro_rules! read_string_len {
    ($name:ident, $l:expr, $unw:expr) => {
        #[kani::proof]
        #[kani::unwind($unw)]
        #[kani::stub(std::fmt::format, format_stub)]
        #[kani::stub(std::string::String::from_utf8, from_utf8_naive)]
        #[kani::stub(std::vec::from_elem, from_elem_checked)]
        fn $name() {
            read_string_total::<$l>();
        }
    };
}
read_string_len!(c20_read_string_len4, 4, 8);
read_string_len!(c20_read_string_len6, 6, 10);

// ------------------------------------------------------------------ C20: type strings

/// parse_data_type (the parser of the type strings stored in binary files) on a concrete
/// parametrised prefix followed by EVERY tail of N ASCII bytes: returns Ok or Err, never panics
/// (a damaged length prefix can cut the string anywhere, e.g. right after "VARCHAR(").
fn parse_type_total<const N: usize>(prefix: &str) {
    let tail: [u8; N] = kani::any();
    let mut s = String::with_capacity(prefix.len() + N);
    s.push_str(prefix);
    let mut i = 0;
    while i < N {
        kani::assume(tail[i] < 0x80);
        s.push(tail[i] as char);
        i += 1;
    }
    let r = vibesql_storage::persistence::binary::verif_parse_data_type(&s);
    kani::cover!(r.is_ok(), "accepted");
    std::mem::forget((r, s));
}

macro_rules! parse_type {
    ($name:ident, $prefix:expr, $n:expr) => {
        #[kani::proof]
        #[kani::unwind(16)]
        #[kani::stub(std::fmt::format, format_stub)]
        fn $name() {
            parse_type_total::<$n>($prefix);
        }
    };
}
// Symbolic tails (1-2 bytes) time out: `to_uppercase` + pattern trimming on symbolic text is
// beyond CBMC (measured 600 s).  What remains decidable is the bare parametrised prefix - the
// string a damaged length prefix produces when it cuts a type name right after the '('.
parse_type!(c20_parse_type_varchar_0, "VARCHAR(", 0);
parse_type!(c20_parse_type_char_0, "CHAR(", 0);
parse_type!(c20_parse_type_float_0, "FLOAT(", 0);
parse_type!(c20_parse_type_varchar_closed, "VARCHAR()", 0);
