//! vk_storage — Kani harnesses over real vibesql-storage kernels: the binary value codec
//! (public API), B+ tree node routing/split and index bound helpers (cfg-guarded re-exports).
#![allow(dead_code, unused_imports)]
#![allow(clippy::all)]

pub mod stubs;

#[cfg(kani)]
mod c18;
#[cfg(kani)]
mod c02;
#[cfg(kani)]
mod c17;
#[cfg(kani)]
mod c26;
#[cfg(kani)]
mod c02b;
