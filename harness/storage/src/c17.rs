//! C17 — B+ tree node kernels: routing, search and split.
//!
//! Functions encoded (real code; `btree::verif_hooks` re-exports): `InternalNode::{new,
//! find_child_index, split, is_full}`, `LeafNode::{new, search, split, is_full,
//! is_underfull}`, `calculate_degree`.
//! Nodes are built with concrete shape (number of entries) and symbolic Integer keys that
//! satisfy the representation invariant (strictly sorted).
use vibesql_storage::btree::verif_hooks::{calculate_degree, InternalNode, LeafNode};
use vibesql_types::{DataType, SqlValue};

fn key(k: i64) -> Vec<SqlValue> {
    vec![SqlValue::Integer(k)]
}

/// Routing: with separators s0 < s1 (< s2), key k goes to child i iff s(i-1) <= k < s(i).
fn routing<const N: usize>() {
    let seps: [i64; N] = kani::any();
    let mut i = 1;
    while i < N {
        kani::assume(seps[i - 1] < seps[i]);
        i += 1;
    }
    let mut node = InternalNode::new(1);
    i = 0;
    while i < N {
        node.keys.push(key(seps[i]));
        node.children.push(100 + i as u64);
        i += 1;
    }
    node.children.push(100 + N as u64);
    let k: i64 = kani::any();
    let probe = key(k);
    let idx = node.find_child_index(&probe);
    // reference: number of separators <= k
    let mut want = 0;
    i = 0;
    while i < N {
        if seps[i] <= k {
            want += 1;
        }
        i += 1;
    }
    assert!(idx == want, "find_child_index routes k to the child whose key interval contains it");
    assert!(idx < node.children.len(), "routing never leaves the node");
    kani::cover!(idx == 0, "leftmost child");
    kani::cover!(idx == N, "rightmost child");
    std::mem::forget((node, probe));
}

#[kani::proof]
#[kani::unwind(6)]
fn c17_route_1_separator() {
    routing::<1>();
}
#[kani::proof]
#[kani::unwind(6)]
fn c17_route_2_separators() {
    routing::<2>();
}
#[kani::proof]
#[kani::unwind(6)]
fn c17_route_3_separators() {
    routing::<3>();
}

/// Leaf search finds exactly the keys that are present, with their row ids.
fn leaf_search<const N: usize>() {
    let ks: [i64; N] = kani::any();
    let mut i = 1;
    while i < N {
        kani::assume(ks[i - 1] < ks[i]);
        i += 1;
    }
    let mut leaf = LeafNode::new(1);
    i = 0;
    while i < N {
        leaf.entries.push((key(ks[i]), vec![10 + i]));
        i += 1;
    }
    let k: i64 = kani::any();
    let probe = key(k);
    let found = leaf.search(&probe);
    let mut want: Option<usize> = None;
    i = 0;
    while i < N {
        if ks[i] == k {
            want = Some(10 + i);
        }
        i += 1;
    }
    match (found, want) {
        (Some(rows), Some(w)) => assert!(rows.len() == 1 && rows[0] == w, "search returns the row ids stored under the key"),
        (None, None) => {}
        _ => assert!(false, "search finds a key iff it is present"),
    }
    kani::cover!(want.is_some() || N == 0, "hit");
    kani::cover!(want.is_none(), "miss");
    std::mem::forget((leaf, probe));
}

#[kani::proof]
#[kani::unwind(6)]
fn c17_leaf_search_0() {
    leaf_search::<0>();
}
#[kani::proof]
#[kani::unwind(6)]
fn c17_leaf_search_2() {
    leaf_search::<2>();
}
#[kani::proof]
#[kani::unwind(6)]
fn c17_leaf_search_3() {
    leaf_search::<3>();
}

/// Leaf split: two non-empty sorted halves whose concatenation is the original, separator is
/// a copy of the right half's first key, the leaf chain is re-linked.
fn leaf_split<const N: usize>() {
    let ks: [i64; N] = kani::any();
    let mut i = 1;
    while i < N {
        kani::assume(ks[i - 1] < ks[i]);
        i += 1;
    }
    let next: u64 = kani::any();
    let mut leaf = LeafNode::new(1);
    leaf.next_leaf = next;
    i = 0;
    while i < N {
        leaf.entries.push((key(ks[i]), vec![10 + i]));
        i += 1;
    }
    let (sep, right) = leaf.split(2);
    let (l, r) = (leaf.entries.len(), right.entries.len());
    assert!(l + r == N, "split loses and duplicates no entry");
    assert!(l >= 1 && r >= 1, "both halves are non-empty");
    assert!(l == N / 2, "left half keeps the lower half");
    let j: usize = kani::any(); // universally quantified position
    if j < l {
        assert!(leaf.entries[j].0[0] == SqlValue::Integer(ks[j]) && leaf.entries[j].1[0] == 10 + j, "left half keeps its entries in order");
    }
    if j < r {
        assert!(right.entries[j].0[0] == SqlValue::Integer(ks[l + j]) && right.entries[j].1[0] == 10 + l + j, "right half holds the upper entries in order");
    }
    assert!(sep.len() == 1 && sep[0] == SqlValue::Integer(ks[l]), "separator is (a copy of) the right half's first key");
    assert!(leaf.next_leaf == 2 && right.next_leaf == next && right.page_id == 2, "leaf chain: left -> right -> old successor");
    kani::cover!(true, "reached");
    std::mem::forget((leaf, right, sep));
}

#[kani::proof]
#[kani::unwind(7)]
fn c17_leaf_split_2() {
    leaf_split::<2>();
}
#[kani::proof]
#[kani::unwind(7)]
fn c17_leaf_split_3() {
    leaf_split::<3>();
}
#[kani::proof]
#[kani::unwind(7)]
fn c17_leaf_split_4() {
    leaf_split::<4>();
}

/// Internal split: middle key moves up; left keeps keys below it, right the keys above it;
/// children are partitioned accordingly (keys.len() + 1 children on each side).
fn internal_split<const N: usize>() {
    let seps: [i64; N] = kani::any();
    let mut i = 1;
    while i < N {
        kani::assume(seps[i - 1] < seps[i]);
        i += 1;
    }
    let mut node = InternalNode::new(1);
    i = 0;
    while i < N {
        node.keys.push(key(seps[i]));
        node.children.push(100 + i as u64);
        i += 1;
    }
    node.children.push(100 + N as u64);
    let (mid, right) = node.split(2);
    let m = N / 2;
    assert!(mid.len() == 1 && mid[0] == SqlValue::Integer(seps[m]), "the middle key moves up");
    assert!(node.keys.len() == m && right.keys.len() == N - m - 1, "keys are partitioned around the middle key");
    assert!(node.children.len() == node.keys.len() + 1, "left node keeps keys + 1 children");
    assert!(right.children.len() == right.keys.len() + 1, "right node holds keys + 1 children");
    let j: usize = kani::any();
    if j < node.keys.len() {
        assert!(node.keys[j][0] == SqlValue::Integer(seps[j]), "left keys in order");
    }
    if j < right.keys.len() {
        assert!(right.keys[j][0] == SqlValue::Integer(seps[m + 1 + j]), "right keys in order");
    }
    if j < node.children.len() {
        assert!(node.children[j] == 100 + j as u64, "left children in order");
    }
    if j < right.children.len() {
        assert!(right.children[j] == 100 + (m + 1 + j) as u64, "right children in order");
    }
    kani::cover!(true, "reached");
    std::mem::forget((node, right, mid));
}

#[kani::proof]
#[kani::unwind(7)]
fn c17_internal_split_3() {
    internal_split::<3>();
}
#[kani::proof]
#[kani::unwind(7)]
fn c17_internal_split_4() {
    internal_split::<4>();
}

/// Node capacity: the degree computed for scalar key schemas is at least 5 (so splits always
/// leave non-empty halves) and fullness predicates agree with it.
#[kani::proof]
#[kani::unwind(6)]
fn c17_degree_and_fullness() {
    let which: u8 = kani::any();
    kani::assume(which < 4);
    let schema = match which {
        0 => vec![DataType::Integer],
        1 => vec![DataType::Bigint, DataType::Integer],
        2 => vec![DataType::Smallint],
        _ => vec![DataType::DoublePrecision, DataType::Boolean],
    };
    let d = calculate_degree(&schema);
    assert!(d >= 5, "degree is at least 5");
    let leaf = LeafNode::new(1);
    assert!(!leaf.is_full(d) && leaf.is_underfull(d), "an empty leaf is underfull, not full");
    kani::cover!(true, "reached");
    std::mem::forget((leaf, schema));
}
