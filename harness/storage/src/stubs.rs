//! Environment stubs for the storage harnesses (all listed in the evidence files).

/// `format!` on error paths builds messages with `io::Error`'s Display impl, which costs CBMC
/// minutes; error *messages* are outside every claim, so the stub returns an empty String.
pub fn format_stub(_args: core::fmt::Arguments<'_>) -> String {
    String::new()
}

/// Number of input bytes available to the code under test (set by each harness).  Any
/// `vec![elem; n]` may request at most `native_budget(INPUT_LEN)` elements.
pub static mut ALLOC_LIMIT: usize = usize::MAX;

/// Model of `alloc::vec::from_elem` (what `vec![elem; n]` expands to) that first *asserts* the
/// request is within the harness's allocation budget and then builds the vector element by
/// element.  Requests above the budget are cut after the assertion has been evaluated.
pub fn from_elem_checked<T: Clone>(elem: T, n: usize) -> Vec<T> {
    let input_len = unsafe { ALLOC_LIMIT };
    assert!(
        input_len == usize::MAX || n <= native_budget(input_len),
        "allocation request is bounded by the remaining input"
    );
    // Requests larger than the input itself are cut only AFTER the assertion above has been
    // evaluated (reading that many bytes can only end in UnexpectedEof).
    #[cfg(kani)]
    kani::assume(n <= input_len && n <= 64);
    let mut v = Vec::with_capacity(n);
    let mut i = 0;
    while i < n {
        v.push(elem.clone());
        i += 1;
    }
    v
}

/// Naive UTF-8 validator standing in for `String::from_utf8` (see harness/server/src/stubs.rs).
pub fn from_utf8_naive(v: Vec<u8>) -> Result<String, std::string::FromUtf8Error> {
    if utf8_ok(&v) {
        Ok(unsafe { String::from_utf8_unchecked(v) })
    } else {
        Err(make_err())
    }
}

fn make_err() -> std::string::FromUtf8Error {
    #[allow(dead_code)]
    struct Fake {
        bytes: Vec<u8>,
        error: core::str::Utf8Error,
    }
    const _: () = assert!(
        core::mem::size_of::<Fake>() == core::mem::size_of::<std::string::FromUtf8Error>()
            && core::mem::align_of::<Fake>() == core::mem::align_of::<std::string::FromUtf8Error>()
    );
    let bad = [0xffu8];
    let error = match core::str::from_utf8(&bad) {
        Err(e) => e,
        Ok(_) => unreachable!(),
    };
    unsafe { core::mem::transmute::<Fake, std::string::FromUtf8Error>(Fake { bytes: Vec::new(), error }) }
}

pub fn utf8_ok(v: &[u8]) -> bool {
    let n = v.len();
    let mut i = 0;
    while i < n {
        let b = v[i];
        if b < 0x80 {
            i += 1;
        } else if b >= 0xC2 && b <= 0xDF {
            if i + 1 >= n || !cont(v[i + 1]) {
                return false;
            }
            i += 2;
        } else if b >= 0xE0 && b <= 0xEF {
            if i + 2 >= n {
                return false;
            }
            let c1 = v[i + 1];
            let ok1 = match b {
                0xE0 => c1 >= 0xA0 && c1 <= 0xBF,
                0xED => c1 >= 0x80 && c1 <= 0x9F,
                _ => cont(c1),
            };
            if !ok1 || !cont(v[i + 2]) {
                return false;
            }
            i += 3;
        } else if b >= 0xF0 && b <= 0xF4 {
            if i + 3 >= n {
                return false;
            }
            let c1 = v[i + 1];
            let ok1 = match b {
                0xF0 => c1 >= 0x90 && c1 <= 0xBF,
                0xF4 => c1 >= 0x80 && c1 <= 0x8F,
                _ => cont(c1),
            };
            if !ok1 || !cont(v[i + 2]) || !cont(v[i + 3]) {
                return false;
            }
            i += 4;
        } else {
            return false;
        }
    }
    true
}

#[inline]
fn cont(b: u8) -> bool {
    b & 0xC0 == 0x80
}

// ---- over-approximating models of the temporal text parsers (their totality and round-trip
// are the subject of C22; here any outcome is allowed so the codec around them can be decided)
use vibesql_types::{Date, Interval, Time, Timestamp};

#[cfg(kani)]
pub fn date_from_str_model(_s: &str) -> Result<Date, String> {
    if kani::any() {
        Ok(Date { year: kani::any(), month: kani::any(), day: kani::any() })
    } else {
        Err(String::new())
    }
}
#[cfg(kani)]
pub fn time_from_str_model(_s: &str) -> Result<Time, String> {
    if kani::any() {
        Ok(Time { hour: kani::any(), minute: kani::any(), second: kani::any(), nanosecond: kani::any() })
    } else {
        Err(String::new())
    }
}
#[cfg(kani)]
pub fn timestamp_from_str_model(_s: &str) -> Result<Timestamp, String> {
    if kani::any() {
        Ok(Timestamp {
            date: Date { year: kani::any(), month: kani::any(), day: kani::any() },
            time: Time { hour: kani::any(), minute: kani::any(), second: kani::any(), nanosecond: kani::any() },
        })
    } else {
        Err(String::new())
    }
}
#[cfg(kani)]
pub fn interval_from_str_model(_s: &str) -> Result<Interval, String> {
    Ok(Interval::verif_from_parts(kani::any(), kani::any(), kani::any()))
}

/// Model of `<&[u8] as std::io::Read>::read_exact`: same contract (copy exactly `buf.len()`
/// bytes and advance, or fail with UnexpectedEof leaving... std leaves the slice emptied on
/// failure; so does the model), written as a byte loop so that CBMC never sees a memcpy of
/// symbolic length.
pub fn read_exact_model<'a>(this: &mut &'a [u8], buf: &mut [u8]) -> std::io::Result<()> {
    if buf.len() > this.len() {
        *this = &this[this.len()..];
        return Err(std::io::Error::from(std::io::ErrorKind::UnexpectedEof));
    }
    let n = buf.len();
    let mut i = 0;
    while i < n {
        buf[i] = this[i];
        i += 1;
    }
    *this = &this[n..];
    Ok(())
}

/// `String::from_utf8_lossy` only feeds an error message in `read_header`.
pub fn lossy_stub(_v: &[u8]) -> std::borrow::Cow<'_, str> {
    std::borrow::Cow::Borrowed("")
}

/// Native replay support: outside verification the `from_elem` stub is inert, so a
/// counterexample to "allocation request bounded by the input" is re-checked natively with a
/// tracking global allocator that records the largest single request.
#[cfg(test)]
pub mod track {
    use std::alloc::{GlobalAlloc, Layout, System};
    use std::sync::atomic::{AtomicUsize, Ordering};
    pub static MAX_REQ: AtomicUsize = AtomicUsize::new(0);
    pub struct Track;
    unsafe impl GlobalAlloc for Track {
        unsafe fn alloc(&self, l: Layout) -> *mut u8 {
            MAX_REQ.fetch_max(l.size(), Ordering::Relaxed);
            System.alloc(l)
        }
        unsafe fn alloc_zeroed(&self, l: Layout) -> *mut u8 {
            MAX_REQ.fetch_max(l.size(), Ordering::Relaxed);
            System.alloc_zeroed(l)
        }
        unsafe fn realloc(&self, p: *mut u8, l: Layout, n: usize) -> *mut u8 {
            MAX_REQ.fetch_max(n, Ordering::Relaxed);
            System.realloc(p, l, n)
        }
        unsafe fn dealloc(&self, p: *mut u8, l: Layout) {
            System.dealloc(p, l)
        }
    }
    pub fn reset() {
        MAX_REQ.store(0, Ordering::Relaxed);
    }
    pub fn max() -> usize {
        MAX_REQ.load(Ordering::Relaxed)
    }
}
#[cfg(test)]
#[global_allocator]
static TRACKING_ALLOC: track::Track = track::Track;

/// Largest allocation request tolerated for an input of `len` bytes (native replay only):
/// the input itself plus one 64 KiB read-ahead chunk.
pub fn native_budget(len: usize) -> usize {
    len + 64 * 1024
}
