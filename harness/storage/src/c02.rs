//! C02 — index path == filter path: bound algebra and point lookups (kernel level).
//!
//! Functions encoded (real code; `database::indexes::verif_hooks` re-exports):
//! `normalize_for_comparison`, `calculate_next_value`, `try_increment_sqlvalue`,
//! `smart_increment_value`; `IndexData::multi_lookup` on a small in-memory index.
use std::cmp::Ordering;
use std::collections::BTreeMap;

use vibesql_storage::database::indexes::verif_hooks as ix;
use vibesql_storage::database::indexes::IndexData;
use vibesql_types::SqlValue;

fn as_f64(v: &SqlValue) -> Option<f64> {
    match v {
        SqlValue::Double(d) => Some(*d),
        _ => None,
    }
}

/// Mathematical value of an integer-typed SqlValue.
fn int_val(v: &SqlValue) -> Option<i128> {
    match v {
        SqlValue::Integer(n) | SqlValue::Bigint(n) => Some(*n as i128),
        SqlValue::Smallint(n) => Some(*n as i128),
        SqlValue::Unsigned(n) => Some(*n as i128),
        _ => None,
    }
}

#[derive(Clone, Copy)]
enum I {
    Integer,
    Smallint,
    Bigint,
    Unsigned,
}
fn any_int(k: I) -> SqlValue {
    match k {
        I::Integer => SqlValue::Integer(kani::any()),
        I::Smallint => SqlValue::Smallint(kani::any()),
        I::Bigint => SqlValue::Bigint(kani::any()),
        I::Unsigned => SqlValue::Unsigned(kani::any()),
    }
}

/// Integer keys: the exclusive->inclusive bound conversion (`col > v` becomes `col >= next`)
/// never panics, and `next` is exactly v + 1 (nothing can lie strictly between); at the
/// type's maximum there is no successor.
macro_rules! int_successor {
    ($name:ident, $k:ident) => {
        #[kani::proof]
        #[kani::unwind(4)]
        fn $name() {
            let v = any_int(I::$k);
            let a = int_val(&v).unwrap();
            let t = ix::try_increment_sqlvalue(&v);
            let s = ix::smart_increment_value(&v);
            let c = ix::calculate_next_value(&v);
            match &t {
                Some(w) => assert!(int_val(w) == Some(a + 1), "try_increment of an integer key is v + 1"),
                None => {}
            }
            match &s {
                Some(w) => assert!(int_val(w) == Some(a + 1), "smart_increment of an integer key is v + 1 (no wrap)"),
                None => {}
            }
            match &c {
                Some(w) => assert!(int_val(w) == Some(a + 1), "calculate_next_value of an integer key is v + 1 (no wrap)"),
                None => {}
            }
            kani::cover!(t.is_some(), "a successor");
            kani::cover!(t.is_none(), "no successor at the maximum");
            std::mem::forget((t, s, c, v));
        }
    };
}
int_successor!(c02_successor_integer, Integer);
int_successor!(c02_successor_smallint, Smallint);
int_successor!(c02_successor_bigint, Bigint);
int_successor!(c02_successor_unsigned, Unsigned);

fn next_up_f64(x: f64) -> f64 {
    // reference successor on the IEEE-754 lattice (finite x)
    let b = x.to_bits();
    if x == 0.0 {
        f64::from_bits(1)
    } else if x > 0.0 {
        f64::from_bits(b + 1)
    } else {
        f64::from_bits(b - 1)
    }
}

/// DOUBLE / NUMERIC keys: when an incremented bound is produced it is the *next representable*
/// value, so that no key v < u < w is skipped when `col > v` is rewritten to `col >= w`.
macro_rules! float_successor {
    ($name:ident, $ctor:ident) => {
        #[kani::proof]
        #[kani::unwind(4)]
        fn $name() {
            let x: f64 = kani::any();
            kani::assume(x.is_finite());
            let v = SqlValue::$ctor(x);
            let t = ix::try_increment_sqlvalue(&v);
            match &t {
                Some(SqlValue::$ctor(w)) => {
                    assert!(*w > x, "the incremented bound is greater than the original");
                    assert!(w.to_bits() == next_up_f64(x).to_bits(), "no representable key lies strictly between v and its incremented bound");
                }
                Some(_) => assert!(false, "increment keeps the SQL type"),
                None => {}
            }
            kani::cover!(t.is_some(), "a successor");
            std::mem::forget((t, v));
        }
    };
}
float_successor!(c02_successor_double, Double);
float_successor!(c02_successor_numeric, Numeric);

/// Index keys are stored normalised (all numerics as DOUBLE): the normalisation is monotone
/// with respect to the mathematical order and exact (injective) for |n| <= 2^53.
macro_rules! normalize_monotone {
    ($name:ident, $a:ident, $b:ident) => {
        #[kani::proof]
        #[kani::unwind(4)]
        fn $name() {
            let a = any_int(I::$a);
            let b = any_int(I::$b);
            let (na, nb) = (ix::normalize_for_comparison(&a), ix::normalize_for_comparison(&b));
            let (fa, fb) = (as_f64(&na), as_f64(&nb));
            assert!(fa.is_some() && fb.is_some(), "integers normalise to DOUBLE keys");
            let (x, y) = (int_val(&a).unwrap(), int_val(&b).unwrap());
            if x < y {
                assert!(fa.unwrap() <= fb.unwrap(), "normalisation is monotone");
            }
            let lim: i128 = 1 << 53;
            if x != y && x >= -lim && x <= lim && y >= -lim && y <= lim {
                assert!(fa.unwrap() != fb.unwrap(), "distinct integers within +-2^53 get distinct index keys");
            }
            assert!(na.cmp(&nb) == fa.unwrap().partial_cmp(&fb.unwrap()).unwrap(), "BTreeMap key order is numeric order");
            kani::cover!(x < y, "ordered pair");
            std::mem::forget((na, nb, a, b));
        }
    };
}
normalize_monotone!(c02_normalize_integer_integer, Integer, Integer);
normalize_monotone!(c02_normalize_smallint_bigint, Smallint, Bigint);
normalize_monotone!(c02_normalize_unsigned_integer, Unsigned, Integer);

