//! C26 — the GRANT/REVOKE history decides `has_privilege` (catalog kernel).
//!
//! Functions encoded (real public API of vibesql_catalog::Catalog): `add_grant`,
//! `remove_grants`, `has_privilege`.  A history of up to 3 operations over 2 roles x 2 objects
//! x 3 privileges is executed on a fresh `Catalog`; a reference set of triples is maintained in
//! the harness and compared with `has_privilege` for every triple after the last step.
use vibesql_ast::{ObjectType, PrivilegeType};
use vibesql_catalog::{Catalog, PrivilegeGrant};

const ROLES: [&str; 2] = ["alice", "bob"];
const OBJECTS: [&str; 2] = ["t", "u"];

fn privilege(k: u8) -> PrivilegeType {
    match k {
        0 => PrivilegeType::Select(None),
        1 => PrivilegeType::Insert(None),
        _ => PrivilegeType::Delete,
    }
}

#[derive(Clone, Copy)]
struct Op {
    grant: bool,
    grant_option_only: bool,
    role: u8,
    object: u8,
    privilege: u8,
}

fn any_op() -> Op {
    let op = Op {
        grant: kani::any(),
        grant_option_only: kani::any(),
        role: kani::any(),
        object: kani::any(),
        privilege: kani::any(),
    };
    kani::assume(op.role < 2 && op.object < 2 && op.privilege < 3);
    op
}

fn apply(cat: &mut Catalog, held: &mut [[[bool; 3]; 2]; 2], op: Op) {
    let (r, o, p) = (op.role as usize, op.object as usize, op.privilege as usize);
    if op.grant {
        cat.add_grant(PrivilegeGrant {
            object: OBJECTS[o].to_string(),
            object_type: ObjectType::Table,
            privilege: privilege(op.privilege),
            grantee: ROLES[r].to_string(),
            grantor: "admin".to_string(),
            with_grant_option: false,
        });
        held[r][o][p] = true;
    } else {
        let _ = cat.remove_grants(OBJECTS[o], ROLES[r], &privilege(op.privilege), op.grant_option_only);
        if !op.grant_option_only {
            held[r][o][p] = false; // REVOKE removes exactly this privilege
        }
    }
}

fn check_all(cat: &Catalog, held: &[[[bool; 3]; 2]; 2]) {
    // universally quantified triple
    let (r, o, p): (u8, u8, u8) = (kani::any(), kani::any(), kani::any());
    kani::assume(r < 2 && o < 2 && p < 3);
    let got = cat.has_privilege(ROLES[r as usize], OBJECTS[o as usize], &privilege(p));
    assert!(
        got == held[r as usize][o as usize][p as usize],
        "has_privilege holds exactly for the triples granted and not revoked since"
    );
}

fn history<const N: usize>() {
    let mut cat = Catalog::new();
    let mut held = [[[false; 3]; 2]; 2];
    let mut i = 0;
    while i < N {
        let op = any_op();
        apply(&mut cat, &mut held, op);
        i += 1;
    }
    check_all(&cat, &held);
    kani::cover!(held[0][0][0], "alice holds SELECT on t");
    kani::cover!(N == 0 || !held[0][0][0], "alice does not hold SELECT on t");
    std::mem::forget(cat);
}

#[kani::proof]
#[kani::unwind(8)]
fn c26_history_0() {
    history::<0>();
}
#[kani::proof]
#[kani::unwind(8)]
fn c26_history_1() {
    history::<1>();
}
#[kani::proof]
#[kani::unwind(8)]
fn c26_history_2() {
    history::<2>();
}
#[kani::proof]
#[kani::unwind(8)]
fn c26_history_3() {
    history::<3>();
}
