//! vk_types — Kani harnesses over the real `vibesql-types` crate (path dependency on /repo).
//!
//! Every harness quantifies over the complete payload space of the values it builds
//! (`kani::any()`), asserts the property, and ends in `kani::cover!` reachability witnesses.
//! Nothing here re-implements vibesql logic: the functions under test are the crate's own
//! `PartialEq/Eq/PartialOrd/Ord/Hash` impls, parsers and formatters.
#![allow(dead_code)]
#![allow(clippy::all)]

pub mod rec_hasher;
pub mod gen;

#[cfg(kani)]
mod c21;
#[cfg(kani)]
mod c22;
