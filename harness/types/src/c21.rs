//! C21 — SQL value equality, ordering and hashing are mutually consistent.
//!
//! Functions encoded (real code): `impl PartialEq/Eq/PartialOrd/Ord/Hash for SqlValue`
//! (sql_value/comparison.rs, sql_value/hash.rs) and for `Date`, `Time`, `Timestamp`,
//! `Interval` (temporal/*.rs).
use std::cmp::Ordering;

use vibesql_types::{Interval, SqlValue};

use crate::gen::*;
use crate::rec_hasher::stream;

// ---------------------------------------------------------------- scalar family (13 variants)

/// eq reflexive + symmetric; cmp reflexive + antisymmetric; eq <=> cmp == Equal;
/// partial_cmp agrees with cmp and with eq whenever it answers.
#[kani::proof]
#[kani::unwind(2)]
fn c21_scalar_eq_ord_pair() {
    let a = any_scalar();
    let b = any_scalar();
    assert!(a == a, "eq reflexive");
    assert!((a == b) == (b == a), "eq symmetric");
    assert!(a.cmp(&a) == Ordering::Equal, "cmp reflexive");
    assert!(a.cmp(&b) == b.cmp(&a).reverse(), "cmp antisymmetric");
    assert!((a == b) == (a.cmp(&b) == Ordering::Equal), "eq agrees with cmp");
    if let Some(o) = a.partial_cmp(&b) {
        assert!(o == a.cmp(&b), "partial_cmp agrees with cmp");
        assert!((o == Ordering::Equal) == (a == b), "partial_cmp Equal agrees with eq");
    }
    kani::cover!(a == b, "some equal pair");
    kani::cover!(a.cmp(&b) == Ordering::Less, "some Less pair");
    kani::cover!(a.partial_cmp(&b).is_none(), "some incomparable pair");
    kani::cover!(true, "reached");
}

/// eq transitive; cmp transitive (<=), over three values of any of the 13 variants.
#[kani::proof]
#[kani::unwind(2)]
fn c21_scalar_transitive() {
    let a = any_scalar();
    let b = any_scalar();
    let c = any_scalar();
    if a == b && b == c {
        assert!(a == c, "eq transitive");
    }
    if a.cmp(&b) != Ordering::Greater && b.cmp(&c) != Ordering::Greater {
        assert!(a.cmp(&c) != Ordering::Greater, "cmp transitive");
    }
    if a.cmp(&b) == Ordering::Less && b.cmp(&c) != Ordering::Greater {
        assert!(a.cmp(&c) == Ordering::Less, "cmp strict-transitive (left)");
    }
    if a.cmp(&b) != Ordering::Greater && b.cmp(&c) == Ordering::Less {
        assert!(a.cmp(&c) == Ordering::Less, "cmp strict-transitive (right)");
    }
    kani::cover!(a == b && b == c, "equal triple");
    kani::cover!(a.cmp(&b) == Ordering::Less && b.cmp(&c) == Ordering::Less, "chain");
    kani::cover!(true, "reached");
}

/// a == b  =>  identical Hasher write stream (for every Hasher).
#[kani::proof]
#[kani::unwind(14)]
fn c21_scalar_eq_implies_hash() {
    let a = any_scalar();
    let b = any_scalar();
    let ha = stream(&a);
    let hb = stream(&b);
    assert!(!ha.overflow && !hb.overflow, "recorder capacity");
    if a == b {
        assert!(ha.same(&hb), "equal values hash equally");
    }
    kani::cover!(a == b, "some equal pair");
    kani::cover!(a == b && ha.n >= 2, "equal pair with payload");
    kani::cover!(true, "reached");
}

/// Hash is a function of the value: hashing twice gives the same stream (no hidden state).
#[kani::proof]
#[kani::unwind(14)]
fn c21_scalar_hash_deterministic() {
    let a = any_scalar();
    let h1 = stream(&a);
    let h2 = stream(&a.clone());
    assert!(h1.same(&h2), "clone hashes equally");
    assert!(a == a.clone(), "clone is equal");
    kani::cover!(true, "reached");
}

// ---------------------------------------------------------------- interval family

fn any_interval() -> Interval {
    Interval::verif_from_parts(kani::any(), kani::any(), kani::any())
}

/// Exact linearisation documented in interval.rs (1 month = 30 days, 1 day = 86400 s), in i128.
fn lin(i: &Interval) -> i128 {
    let (m, d, us) = i.verif_parts();
    ((m as i128) * 30 + (d as i128)) * 86_400_000_000i128 + (us as i128)
}

/// The order key is the documented exact linearisation, computed without wrap-around:
/// one symbolic interval, real `cmp_value` vs. the i128 formula.
#[kani::proof]
#[kani::unwind(2)]
fn c21_interval_cmp_value_exact() {
    let a = any_interval();
    assert!(a.verif_cmp_value() == lin(&a), "cmp_value is the exact 30-day linearisation");
    kani::cover!(a.verif_cmp_value() < 0, "negative key");
    kani::cover!(true, "reached");
    std::mem::forget(a);
}

/// Interval equality and hashing: full (i32,i32,i64)^2 domain.
#[kani::proof]
#[kani::unwind(2)]
fn c21_interval_eq_hash() {
    let a = any_interval();
    let b = any_interval();
    assert!(a == a, "eq reflexive");
    assert!((a == b) == (b == a), "eq symmetric");
    assert!((a == b) == (a.verif_parts() == b.verif_parts()), "eq is representation equality");
    if a == b {
        assert!(stream(&a).same(&stream(&b)), "equal values hash equally");
    }
    let (va, vb) = (SqlValue::Interval(a.clone()), SqlValue::Interval(b.clone()));
    assert!((va == vb) == (a == b), "SqlValue eq delegates");
    if va == vb {
        assert!(stream(&va).same(&stream(&vb)), "SqlValue: equal values hash equally");
    }
    kani::cover!(a == b, "equal pair");
    kani::cover!(true, "reached");
    std::mem::forget((a, b, va, vb));
}

/// Interval order: antisymmetric, consistent between Ord / PartialOrd / SqlValue, and
/// equality implies Equal. Full domain.
#[kani::proof]
#[kani::unwind(2)]
fn c21_interval_ord() {
    let a = any_interval();
    let b = any_interval();
    let ab = a.cmp(&b);
    assert!(ab == b.cmp(&a).reverse(), "cmp antisymmetric");
    assert!(a.partial_cmp(&b) == Some(ab), "partial_cmp agrees with cmp");
    if a == b {
        assert!(ab == Ordering::Equal, "eq implies cmp Equal");
    }
    let (va, vb) = (SqlValue::Interval(a.clone()), SqlValue::Interval(b.clone()));
    assert!(va.cmp(&vb) == ab, "SqlValue cmp delegates");
    assert!(va.partial_cmp(&vb) == Some(ab), "SqlValue partial_cmp delegates");
    kani::cover!(ab == Ordering::Less, "less pair");
    kani::cover!(ab == Ordering::Equal && a != b, "aliasing pair");
    kani::cover!(true, "reached");
    std::mem::forget((a, b, va, vb));
}

/// `cmp` orders by the key whose exactness `c21_interval_cmp_value_exact` establishes.
#[kani::proof]
#[kani::unwind(2)]
fn c21_interval_cmp_uses_key() {
    let a = any_interval();
    let b = any_interval();
    assert!(
        a.cmp(&b) == a.verif_cmp_value().cmp(&b.verif_cmp_value()),
        "cmp orders by cmp_value"
    );
    kani::cover!(a.cmp(&b) == Ordering::Greater, "greater pair");
    kani::cover!(true, "reached");
    std::mem::forget((a, b));
}

/// The agreement law on the full domain. On the pinned tree this FAILS (known finding:
/// `1 MONTH` vs `30 DAY` compare Equal but are not equal; the behaviour is pinned by the
/// baseline test `test_interval_comparison_month_vs_days`).
#[kani::proof]
#[kani::unwind(2)]
fn c21_interval_cmp_equal_implies_eq() {
    let a = any_interval();
    let b = any_interval();
    if a.cmp(&b) == Ordering::Equal {
        assert!(a == b, "interval: cmp Equal implies eq");
    }
    kani::cover!(a.cmp(&b) == Ordering::Equal, "Equal pair");
    kani::cover!(true, "reached");
    std::mem::forget((a, b));
}

/// Complement twin of the known finding: outside the region "different representation with
/// the same 30-day linearisation" the agreement law must hold — so any *other* disagreement
/// between interval order and equality is still a violation.
#[kani::proof]
#[kani::unwind(2)]
fn c21_interval_cmp_equal_implies_eq_twin() {
    let a = any_interval();
    let b = any_interval();
    let known_region =
        a.verif_parts() != b.verif_parts() && a.verif_cmp_value() == b.verif_cmp_value();
    kani::assume(!known_region);
    if a.cmp(&b) == Ordering::Equal {
        assert!(a == b, "interval: cmp Equal implies eq (outside month/day aliasing)");
    }
    kani::cover!(a.cmp(&b) == Ordering::Equal, "Equal pair");
    kani::cover!(true, "reached");
    std::mem::forget((a, b));
}

/// Transitivity of the interval order and equality over three intervals.
#[kani::proof]
#[kani::unwind(2)]
fn c21_interval_transitive() {
    let a = any_interval();
    let b = any_interval();
    let c = any_interval();
    if a == b && b == c {
        assert!(a == c, "eq transitive");
    }
    if a.cmp(&b) != Ordering::Greater && b.cmp(&c) != Ordering::Greater {
        assert!(a.cmp(&c) != Ordering::Greater, "cmp transitive");
    }
    kani::cover!(a.cmp(&b) == Ordering::Less && b.cmp(&c) == Ordering::Less, "chain");
    kani::cover!(true, "reached");
    std::mem::forget((a, b, c));
}

/// Interval vs every scalar variant: ordered by type tag, never equal, antisymmetric.
#[kani::proof]
#[kani::unwind(2)]
fn c21_interval_vs_scalar() {
    let a = SqlValue::Interval(any_interval());
    let b = any_scalar();
    assert!(a != b && b != a, "different types are unequal");
    assert!(a.cmp(&b) == b.cmp(&a).reverse(), "cmp antisymmetric");
    assert!(a.cmp(&b) != Ordering::Equal, "cmp never Equal across types");
    assert!(a.partial_cmp(&b).is_none(), "SQL comparison across types is UNKNOWN");
    kani::cover!(true, "reached");
    std::mem::forget((a, b));
}

// ---------------------------------------------------------------- string family (bounded)

macro_rules! string_pair {
    ($name:ident, $ctor_a:ident, $na:expr, $ctor_b:ident, $nb:expr, $unw:expr, $can_eq:expr) => {
        #[kani::proof]
        #[kani::unwind($unw)]
        fn $name() {
            let a = SqlValue::$ctor_a(any_ascii_string::<$na>());
            let b = SqlValue::$ctor_b(any_ascii_string::<$nb>());
            assert!(a == a, "eq reflexive");
            assert!((a == b) == (b == a), "eq symmetric");
            assert!(a.cmp(&b) == b.cmp(&a).reverse(), "cmp antisymmetric");
            assert!((a == b) == (a.cmp(&b) == Ordering::Equal), "eq agrees with cmp");
            if let Some(o) = a.partial_cmp(&b) {
                assert!(o == a.cmp(&b), "partial_cmp agrees with cmp");
            }
            if a == b {
                assert!(stream(&a).same(&stream(&b)), "equal values hash equally");
            }
            // Reachability witnesses (same-type/same-length pairs can be equal; every pair
            // can be ordered one way or the other).
            if $can_eq {
                kani::cover!(a == b, "equal pair");
            }
            kani::cover!(a.cmp(&b) != Ordering::Equal, "ordered pair");
            kani::cover!(true, "reached");
            std::mem::forget((a, b));
        }
    };
}

string_pair!(c21_str_varchar2_varchar2, Varchar, 2, Varchar, 2, 6, true);
string_pair!(c21_str_char2_char2, Character, 2, Character, 2, 6, true);
string_pair!(c21_str_varchar1_varchar2, Varchar, 1, Varchar, 2, 6, false);
string_pair!(c21_str_varchar2_char2, Varchar, 2, Character, 2, 6, false);
string_pair!(c21_str_varchar3_varchar3, Varchar, 3, Varchar, 3, 7, true);
string_pair!(c21_str_char3_varchar3, Character, 3, Varchar, 3, 7, false);
string_pair!(c21_str_varchar0_varchar1, Varchar, 0, Varchar, 1, 6, false);

/// String vs every scalar variant.
#[kani::proof]
#[kani::unwind(6)]
fn c21_str_vs_scalar() {
    let a = if kani::any() {
        SqlValue::Varchar(any_ascii_string::<2>())
    } else {
        SqlValue::Character(any_ascii_string::<2>())
    };
    let b = any_scalar();
    assert!(a != b && b != a, "different types are unequal");
    assert!(a.cmp(&b) == b.cmp(&a).reverse(), "cmp antisymmetric");
    assert!(a.cmp(&b) != Ordering::Equal, "cmp never Equal across types");
    kani::cover!(true, "reached");
    std::mem::forget((a, b));
}

/// Three strings: transitivity of eq and cmp (2-byte ASCII each).
#[kani::proof]
#[kani::unwind(6)]
fn c21_str_transitive() {
    let a = SqlValue::Varchar(any_ascii_string::<2>());
    let b = SqlValue::Varchar(any_ascii_string::<2>());
    let c = SqlValue::Varchar(any_ascii_string::<2>());
    if a == b && b == c {
        assert!(a == c, "eq transitive");
    }
    if a.cmp(&b) != Ordering::Greater && b.cmp(&c) != Ordering::Greater {
        assert!(a.cmp(&c) != Ordering::Greater, "cmp transitive");
    }
    kani::cover!(a.cmp(&b) == Ordering::Less && b.cmp(&c) == Ordering::Less, "chain");
    kani::cover!(true, "reached");
    std::mem::forget((a, b, c));
}
