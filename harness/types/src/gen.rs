//! Symbolic value builders (shape concrete or small-enum symbolic; payloads fully symbolic).
use vibesql_types::{Date, SqlValue, Time, Timestamp};

#[cfg(kani)]
pub fn any_date() -> Date {
    // `Date`'s fields are public: every field combination is a constructible value,
    // so the laws are required (and checked) for all of them, not only validated dates.
    Date { year: kani::any(), month: kani::any(), day: kani::any() }
}

#[cfg(kani)]
pub fn any_time() -> Time {
    Time { hour: kani::any(), minute: kani::any(), second: kani::any(), nanosecond: kani::any() }
}

#[cfg(kani)]
pub fn any_timestamp() -> Timestamp {
    Timestamp { date: any_date(), time: any_time() }
}

/// Number of heap-free `SqlValue` variants produced by `any_scalar`.
pub const N_SCALAR: u8 = 13;

/// Any heap-free SqlValue: symbolic discriminant over 13 variants, symbolic payload.
#[cfg(kani)]
pub fn any_scalar() -> SqlValue {
    let k: u8 = kani::any();
    kani::assume(k < N_SCALAR);
    scalar_of(k)
}

#[cfg(kani)]
pub fn scalar_of(k: u8) -> SqlValue {
    match k {
        0 => SqlValue::Null,
        1 => SqlValue::Integer(kani::any()),
        2 => SqlValue::Smallint(kani::any()),
        3 => SqlValue::Bigint(kani::any()),
        4 => SqlValue::Unsigned(kani::any()),
        5 => SqlValue::Numeric(kani::any()),
        6 => SqlValue::Float(kani::any()),
        7 => SqlValue::Real(kani::any()),
        8 => SqlValue::Double(kani::any()),
        9 => SqlValue::Boolean(kani::any()),
        10 => SqlValue::Date(any_date()),
        11 => SqlValue::Time(any_time()),
        _ => SqlValue::Timestamp(any_timestamp()),
    }
}

/// A String of exactly `N` symbolic ASCII bytes (valid UTF-8 by construction).
#[cfg(kani)]
pub fn any_ascii_string<const N: usize>() -> String {
    let bytes: [u8; N] = kani::any();
    let mut s = String::with_capacity(N);
    let mut i = 0;
    while i < N {
        kani::assume(bytes[i] < 0x80);
        s.push(bytes[i] as char);
        i += 1;
    }
    s
}
