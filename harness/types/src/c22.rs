// C22 harnesses (filled in later)
