//! C22 — temporal values round-trip through text; parsing is total.
//!
//! Functions encoded (real code): `impl Display / FromStr for Time, Date, Timestamp`.
use std::str::FromStr;

use vibesql_types::{Date, Time, Timestamp};

/// Naive byte search standing in for `core::slice::memchr::memchr` (str::find / split).
pub fn memchr_naive(x: u8, text: &[u8]) -> Option<usize> {
    let mut i = 0;
    while i < text.len() {
        if text[i] == x {
            return Some(i);
        }
        i += 1;
    }
    None
}

/// TIME: parse(format(t)) == t for every nanosecond value (h:m:s concrete).
#[kani::proof]
#[kani::unwind(24)]
#[kani::stub(core::slice::memchr::memchr, memchr_naive)]
fn c22_time_roundtrip_nanos() {
    let ns: u32 = kani::any();
    kani::assume(ns <= 999_999_999);
    let t = Time { hour: 12, minute: 34, second: 56, nanosecond: ns };
    let s = t.to_string();
    let back = Time::from_str(&s);
    match &back {
        Ok(u) => assert!(*u == t, "parse(format(t)) == t"),
        Err(_) => assert!(false, "a formatted TIME parses"),
    }
    kani::cover!(ns == 50_000_000, "fraction with a leading zero");
    kani::cover!(ns == 0, "no fraction");
    std::mem::forget((s, back));
}

/// TIME: hour/minute/second symbolic (valid), no fraction.
#[kani::proof]
#[kani::unwind(24)]
#[kani::stub(core::slice::memchr::memchr, memchr_naive)]
fn c22_time_roundtrip_hms() {
    let (h, m, sec): (u8, u8, u8) = (kani::any(), kani::any(), kani::any());
    kani::assume(h <= 23 && m <= 59 && sec <= 59);
    let t = Time { hour: h, minute: m, second: sec, nanosecond: 0 };
    let s = t.to_string();
    let back = Time::from_str(&s);
    match &back {
        Ok(u) => assert!(*u == t, "parse(format(t)) == t"),
        Err(_) => assert!(false, "a formatted TIME parses"),
    }
    kani::cover!(true, "reached");
    std::mem::forget((s, back));
}

/// DATE: month/day symbolic (valid), year symbolic in 0..=9999.
#[kani::proof]
#[kani::unwind(24)]
#[kani::stub(core::slice::memchr::memchr, memchr_naive)]
fn c22_date_roundtrip() {
    let (y, m, d): (i32, u8, u8) = (kani::any(), kani::any(), kani::any());
    kani::assume(y >= 0 && y <= 9999 && m >= 1 && m <= 12 && d >= 1 && d <= 31);
    let t = Date { year: y, month: m, day: d };
    let s = t.to_string();
    let back = Date::from_str(&s);
    match &back {
        Ok(u) => assert!(*u == t, "parse(format(d)) == d"),
        Err(_) => assert!(false, "a formatted DATE parses"),
    }
    kani::cover!(true, "reached");
    std::mem::forget((s, back));
}
