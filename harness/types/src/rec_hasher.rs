//! A `Hasher` that records what is written to it instead of mixing it.
//!
//! Two values "hash equally" for every possible `Hasher` iff they feed it the same
//! sequence of writes; comparing the recorded streams is therefore *stronger* than
//! comparing one SipHash output, and it keeps SipHash's rounds out of the SAT problem.
use std::hash::Hasher;

pub const CAP: usize = 12;

/// One recorded write: (kind tag, value). Byte-slice writes are recorded byte by byte.
#[derive(Clone, Copy, PartialEq, Eq, Debug)]
pub struct W(pub u8, pub u64);

#[derive(Clone, Debug)]
pub struct Rec {
    pub w: [W; CAP],
    pub n: usize,
    pub overflow: bool,
}

impl Rec {
    pub fn new() -> Self {
        Rec { w: [W(0, 0); CAP], n: 0, overflow: false }
    }
    #[inline]
    fn push(&mut self, k: u8, v: u64) {
        if self.n < CAP {
            self.w[self.n] = W(k, v);
            self.n += 1;
        } else {
            self.overflow = true;
        }
    }
    /// Stream equality, written without a loop (fixed CAP) so that no unwind bound is involved.
    pub fn same(&self, o: &Rec) -> bool {
        if self.n != o.n || self.overflow || o.overflow {
            return false;
        }
        macro_rules! at {
            ($i:expr) => {
                ($i >= self.n || self.w[$i] == o.w[$i])
            };
        }
        at!(0) && at!(1) && at!(2) && at!(3) && at!(4) && at!(5) && at!(6) && at!(7) && at!(8)
            && at!(9) && at!(10) && at!(11)
    }
}

impl Hasher for Rec {
    fn finish(&self) -> u64 {
        0
    }
    fn write(&mut self, bytes: &[u8]) {
        let mut i = 0;
        while i < bytes.len() {
            self.push(1, bytes[i] as u64);
            i += 1;
        }
    }
    fn write_u8(&mut self, i: u8) {
        self.push(2, i as u64)
    }
    fn write_u16(&mut self, i: u16) {
        self.push(3, i as u64)
    }
    fn write_u32(&mut self, i: u32) {
        self.push(4, i as u64)
    }
    fn write_u64(&mut self, i: u64) {
        self.push(5, i)
    }
    fn write_usize(&mut self, i: usize) {
        self.push(6, i as u64)
    }
    fn write_i8(&mut self, i: i8) {
        self.push(7, i as u8 as u64)
    }
    fn write_i16(&mut self, i: i16) {
        self.push(8, i as u16 as u64)
    }
    fn write_i32(&mut self, i: i32) {
        self.push(9, i as u32 as u64)
    }
    fn write_i64(&mut self, i: i64) {
        self.push(10, i as u64)
    }
    fn write_isize(&mut self, i: isize) {
        self.push(11, i as u64)
    }
}

pub fn stream<T: std::hash::Hash>(v: &T) -> Rec {
    let mut r = Rec::new();
    v.hash(&mut r);
    r
}
