//! Regenerates the encoding input from /repo's CURRENT source on every build: the server is a
//! binary crate (cannot be a dependency), so `protocol/messages.rs` is compiled in place.
//! The only textual change is the import of `HashMap`, redirected to an insertion-ordered
//! association-list model (`crate::shim_map::HashMap`): std's hashbrown is out of CBMC's reach
//! (measured), and the protocol code only uses new/insert/iter/len.  If the import line is not
//! found the file is used unchanged.
use std::{env, fs, path::PathBuf};

fn main() {
    let repo = env::var("VERIF_REPO").unwrap_or_else(|_| "/repo".to_string());
    let src = format!("{repo}/crates/vibesql-server/src/protocol/messages.rs");
    println!("cargo:rerun-if-changed={src}");
    println!("cargo:rerun-if-env-changed=VERIF_REPO");
    let text = fs::read_to_string(&src).expect("read messages.rs");
    let replaced = text.replacen("use std::collections::HashMap;", "use crate::shim_map::HashMap;", 1);
    let out = PathBuf::from(env::var("OUT_DIR").unwrap()).join("messages_gen.rs");
    fs::write(&out, replaced).unwrap();
}
