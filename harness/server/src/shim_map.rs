//! Insertion-ordered association list standing in for `std::collections::HashMap` inside the
//! protocol module (environment model: std's hashbrown is out of CBMC's reach — measured: one
//! insert + two lookups on HashMap<u32,u32> did not finish in 19 min).  Same observable
//! semantics for the API subset used (`new`, `insert` = replace-or-add, `get`, `iter`, `len`);
//! iteration order = insertion order, which is one of the orders the real map may produce.
#[derive(Clone, Debug, PartialEq, Default)]
pub struct HashMap<K, V> {
    e: Vec<(K, V)>,
}

impl<K: PartialEq, V> HashMap<K, V> {
    pub fn new() -> Self {
        HashMap { e: Vec::new() }
    }
    pub fn insert(&mut self, k: K, v: V) -> Option<V> {
        let mut i = 0;
        while i < self.e.len() {
            if self.e[i].0 == k {
                return Some(std::mem::replace(&mut self.e[i].1, v));
            }
            i += 1;
        }
        self.e.push((k, v));
        None
    }
    pub fn get<Q: ?Sized>(&self, k: &Q) -> Option<&V>
    where
        K: std::borrow::Borrow<Q>,
        Q: PartialEq,
    {
        let mut i = 0;
        while i < self.e.len() {
            if self.e[i].0.borrow() == k {
                return Some(&self.e[i].1);
            }
            i += 1;
        }
        None
    }
    pub fn len(&self) -> usize {
        self.e.len()
    }
    pub fn is_empty(&self) -> bool {
        self.e.is_empty()
    }
    pub fn iter(&self) -> Iter<'_, K, V> {
        Iter { m: self, i: 0 }
    }
    pub fn entries(&self) -> &[(K, V)] {
        &self.e
    }
}

pub struct Iter<'a, K, V> {
    m: &'a HashMap<K, V>,
    i: usize,
}
impl<'a, K, V> Iterator for Iter<'a, K, V> {
    type Item = (&'a K, &'a V);
    fn next(&mut self) -> Option<Self::Item> {
        if self.i < self.m.e.len() {
            let (k, v) = &self.m.e[self.i];
            self.i += 1;
            Some((k, v))
        } else {
            None
        }
    }
}
impl<'a, K, V> IntoIterator for &'a HashMap<K, V> {
    type Item = (&'a K, &'a V);
    type IntoIter = Iter<'a, K, V>;
    fn into_iter(self) -> Iter<'a, K, V> {
        Iter { m: self, i: 0 }
    }
}
