//! Environment stubs (all part of the claim; listed in every evidence file).

/// Ghost record of what `String::from_utf8` was called with (filled by the stub).  Reading the
/// bytes of a heap `String` that came back through several enum moves makes CBMC's array
/// post-processing explode (measured: 530 s vs 46 s at 7 bytes), so harnesses compare the
/// *ghost copy* against the frame instead and only read `len()` from the real String.
/// Sound because `from_utf8` adopts the vector it is given unchanged (std contract, trusted).
pub const GHOST_CAP: usize = 16;
pub const GHOST_CALLS: usize = 4;
pub static mut GHOST: [[u8; GHOST_CAP]; GHOST_CALLS] = [[0; GHOST_CAP]; GHOST_CALLS];
pub static mut GHOST_LEN: [usize; GHOST_CALLS] = [0; GHOST_CALLS];
pub static mut GHOST_OK: [bool; GHOST_CALLS] = [false; GHOST_CALLS];
pub static mut GHOST_N: usize = 0;

fn ghost_record(v: &[u8], ok: bool) {
    unsafe {
        let k = GHOST_N;
        if k < GHOST_CALLS {
            let mut i = 0;
            while i < v.len() && i < GHOST_CAP {
                GHOST[k][i] = v[i];
                i += 1;
            }
            GHOST_LEN[k] = v.len();
            GHOST_OK[k] = ok;
        }
        GHOST_N = k + 1;
    }
}

/// Content of the string produced by the `k`-th successful-or-not `from_utf8` call.
/// Under native replay (`cfg(test)`: stubs are not applied) the real string is read instead.
pub fn str_byte(s: &str, k: usize, i: usize) -> u8 {
    if cfg!(test) {
        s.as_bytes()[i]
    } else {
        unsafe { GHOST[k][i] }
    }
}
pub fn str_len_consistent(s: &str, k: usize) -> bool {
    if cfg!(test) {
        true
    } else {
        unsafe { GHOST_N > k && GHOST_OK[k] && GHOST_LEN[k] == s.len() && s.len() <= GHOST_CAP }
    }
}

/// Naive UTF-8 validator standing in for `String::from_utf8` (std's SWAR validator makes
/// CBMC run out of memory on 5 symbolic bytes).  Accepts exactly the well-formed UTF-8 byte
/// sequences of Unicode 15 Table 3-7; on success the bytes are adopted unchanged.
pub fn from_utf8_naive(v: Vec<u8>) -> Result<String, std::string::FromUtf8Error> {
    let ok = utf8_ok(&v);
    ghost_record(&v, ok);
    if ok {
        // SAFETY: validated just above.
        Ok(unsafe { String::from_utf8_unchecked(v) })
    } else {
        Err(make_err())
    }
}

/// `FromUtf8Error` has no public constructor and `String::from_utf8` is the function being
/// stubbed, so the error value is assembled from a genuine `Utf8Error` (real
/// `core::str::from_utf8` on a one-byte constant, which constant-folds) and the rejected bytes.
/// Callers in the code under test only `map_err(|_| ..)` it away; it must merely be droppable.
fn make_err() -> std::string::FromUtf8Error {
    #[allow(dead_code)]
    struct Fake {
        bytes: Vec<u8>,
        error: core::str::Utf8Error,
    }
    const _: () = assert!(
        core::mem::size_of::<Fake>() == core::mem::size_of::<std::string::FromUtf8Error>()
            && core::mem::align_of::<Fake>() == core::mem::align_of::<std::string::FromUtf8Error>()
    );
    let bad = [0xffu8];
    let error = match core::str::from_utf8(&bad) {
        Err(e) => e,
        Ok(_) => unreachable!(),
    };
    // Same field types in the same order => same layout under the same compiler invocation.
    unsafe { core::mem::transmute::<Fake, std::string::FromUtf8Error>(Fake { bytes: Vec::new(), error }) }
}

pub fn utf8_ok(v: &[u8]) -> bool {
    let n = v.len();
    let mut i = 0;
    while i < n {
        let b = v[i];
        if b < 0x80 {
            i += 1;
        } else if b >= 0xC2 && b <= 0xDF {
            if i + 1 >= n || !cont(v[i + 1]) {
                return false;
            }
            i += 2;
        } else if b >= 0xE0 && b <= 0xEF {
            if i + 2 >= n {
                return false;
            }
            let c1 = v[i + 1];
            let ok1 = match b {
                0xE0 => c1 >= 0xA0 && c1 <= 0xBF,
                0xED => c1 >= 0x80 && c1 <= 0x9F,
                _ => cont(c1),
            };
            if !ok1 || !cont(v[i + 2]) {
                return false;
            }
            i += 3;
        } else if b >= 0xF0 && b <= 0xF4 {
            if i + 3 >= n {
                return false;
            }
            let c1 = v[i + 1];
            let ok1 = match b {
                0xF0 => c1 >= 0x90 && c1 <= 0xBF,
                0xF4 => c1 >= 0x80 && c1 <= 0x8F,
                _ => cont(c1),
            };
            if !ok1 || !cont(v[i + 2]) || !cont(v[i + 3]) {
                return false;
            }
            i += 4;
        } else {
            return false;
        }
    }
    true
}

#[inline]
fn cont(b: u8) -> bool {
    b & 0xC0 == 0x80
}
