//! C28 — server messages are well-formed protocol frames.
//!
//! Functions encoded (real code, regenerated from /repo on every build):
//! `BackendMessage::encode` (all 12 variants), `put_cstring`, `encode_notice_or_error`,
//! `TransactionStatus::as_byte`.  Each harness encodes one message with symbolic field
//! contents into an empty buffer and checks: exactly one frame, length field == bytes after
//! the type byte, and the independent reader in `frame.rs` recovers the same fields.
use bytes::BytesMut;

use crate::frame::*;
use crate::messages::*;
use crate::shim_map::HashMap;

fn ascii<const N: usize>(allow_nul: bool) -> String {
    let bytes: [u8; N] = kani::any();
    let mut s = String::with_capacity(N);
    let mut i = 0;
    while i < N {
        kani::assume(bytes[i] < 0x80);
        if !allow_nul {
            kani::assume(bytes[i] != 0);
        }
        s.push(bytes[i] as char);
        i += 1;
    }
    s
}

fn encode(m: &BackendMessage) -> BytesMut {
    let mut buf = BytesMut::new();
    m.encode(&mut buf);
    buf
}

#[kani::proof]
#[kani::unwind(6)]
fn c28_fixed_size_messages() {
    // AuthenticationOk / Cleartext / EmptyQuery / MD5 / BackendKeyData / ReadyForQuery
    let which: u8 = kani::any();
    kani::assume(which < 6);
    let salt: [u8; 4] = kani::any();
    let (pid, key): (i32, i32) = (kani::any(), kani::any());
    let st = match kani::any::<u8>() % 3 {
        0 => TransactionStatus::Idle,
        1 => TransactionStatus::InTransaction,
        _ => TransactionStatus::FailedTransaction,
    };
    let m = match which {
        0 => BackendMessage::AuthenticationOk,
        1 => BackendMessage::AuthenticationCleartextPassword,
        2 => BackendMessage::EmptyQueryResponse,
        3 => BackendMessage::AuthenticationMD5Password { salt },
        4 => BackendMessage::BackendKeyData { process_id: pid, secret_key: key },
        _ => BackendMessage::ReadyForQuery { status: st },
    };
    let out = encode(&m);
    let ty = match which {
        0 | 1 | 3 => b'R',
        2 => b'I',
        4 => b'K',
        _ => b'Z',
    };
    let c = open_frame(&out, ty);
    assert!(c.is_some(), "one frame, right type, length field == bytes after the type byte");
    let mut c = c.unwrap();
    match which {
        0 => assert!(c.i32() == 0, "AuthenticationOk code"),
        1 => assert!(c.i32() == 3, "cleartext code"),
        2 => {}
        3 => {
            assert!(c.i32() == 5, "md5 code");
            assert!(c.expect_bytes(&salt), "salt");
        }
        4 => {
            assert!(c.i32() == pid, "process id");
            assert!(c.i32() == key, "secret key");
        }
        _ => {
            let b = c.u8();
            let want = match st {
                TransactionStatus::Idle => b'I',
                TransactionStatus::InTransaction => b'T',
                TransactionStatus::FailedTransaction => b'E',
            };
            assert!(b == want, "transaction status byte");
        }
    }
    assert!(c.at_end(), "nothing but the documented fields inside the frame");
    kani::cover!(which == 5, "ReadyForQuery");
    kani::cover!(which == 3, "MD5");
    kani::cover!(true, "reached");
}

/// CommandComplete with an arbitrary ASCII tag, NUL allowed (full domain).  On the pinned tree
/// this FAILS: put_cstring copies interior NULs verbatim (known finding).
#[kani::proof]
#[kani::unwind(6)]
fn c28_command_complete_any_string() {
    let tag = ascii::<3>(true);
    let m = BackendMessage::CommandComplete { tag };
    let out = encode(&m);
    let c = open_frame(&out, b'C');
    assert!(c.is_some(), "one frame, right type, length field == bytes after the type byte");
    let mut c = c.unwrap();
    if let BackendMessage::CommandComplete { tag } = &m {
        assert!(c.expect_cstr(tag.as_bytes()), "cstring field recovered (arbitrary string)");
    }
    assert!(c.at_end(), "nothing but the documented fields inside the frame");
    kani::cover!(true, "reached");
    std::mem::forget(m);
}

macro_rules! command_complete {
    ($name:ident, $n:expr, $unw:expr) => {
        #[kani::proof]
        #[kani::unwind($unw)]
        fn $name() {
            let tag = ascii::<$n>(false);
            let m = BackendMessage::CommandComplete { tag };
            let out = encode(&m);
            let c = open_frame(&out, b'C');
            assert!(c.is_some(), "one frame, right type, length field == bytes after the type byte");
            let mut c = c.unwrap();
            if let BackendMessage::CommandComplete { tag } = &m {
                assert!(c.expect_cstr(tag.as_bytes()), "tag recovered");
            }
            assert!(c.at_end(), "nothing but the documented fields inside the frame");
            kani::cover!(true, "reached");
            std::mem::forget(m);
        }
    };
}
command_complete!(c28_command_complete_0, 0, 6);
command_complete!(c28_command_complete_3, 3, 6);

#[kani::proof]
#[kani::unwind(6)]
fn c28_parameter_status() {
    let name = ascii::<2>(false);
    let value = ascii::<3>(false);
    let m = BackendMessage::ParameterStatus { name, value };
    let out = encode(&m);
    let c = open_frame(&out, b'S');
    assert!(c.is_some(), "one frame, right type, length field == bytes after the type byte");
    let mut c = c.unwrap();
    if let BackendMessage::ParameterStatus { name, value } = &m {
        assert!(c.expect_cstr(name.as_bytes()), "name recovered");
        assert!(c.expect_cstr(value.as_bytes()), "value recovered");
    }
    assert!(c.at_end(), "nothing but the documented fields inside the frame");
    kani::cover!(true, "reached");
    std::mem::forget(m);
}

fn any_field<const N: usize>() -> FieldDescription {
    FieldDescription {
        name: ascii::<N>(false),
        table_oid: kani::any(),
        column_attr_number: kani::any(),
        data_type_oid: kani::any(),
        data_type_size: kani::any(),
        type_modifier: kani::any(),
        format_code: kani::any(),
    }
}

fn check_field(c: &mut Cur, f: &FieldDescription) {
    assert!(c.expect_cstr(f.name.as_bytes()), "field name");
    assert!(c.i32() == f.table_oid, "table oid");
    assert!(c.i16() == f.column_attr_number, "attr number");
    assert!(c.i32() == f.data_type_oid, "type oid");
    assert!(c.i16() == f.data_type_size, "type size");
    assert!(c.i32() == f.type_modifier, "type modifier");
    assert!(c.i16() == f.format_code, "format code");
}

#[kani::proof]
#[kani::unwind(6)]
fn c28_row_description_0_1_2() {
    let n: u8 = kani::any();
    kani::assume(n <= 2);
    let mut fields = Vec::with_capacity(2);
    if n >= 1 {
        fields.push(any_field::<2>());
    }
    if n >= 2 {
        fields.push(any_field::<1>());
    }
    let m = BackendMessage::RowDescription { fields };
    let out = encode(&m);
    let c = open_frame(&out, b'T');
    assert!(c.is_some(), "one frame, right type, length field == bytes after the type byte");
    let mut c = c.unwrap();
    assert!(c.i16() == n as i16, "field count");
    if let BackendMessage::RowDescription { fields } = &m {
        if n >= 1 {
            check_field(&mut c, &fields[0]);
        }
        if n >= 2 {
            check_field(&mut c, &fields[1]);
        }
    }
    assert!(c.at_end(), "nothing but the documented fields inside the frame");
    kani::cover!(n == 2, "two fields");
    kani::cover!(n == 0, "no fields");
    std::mem::forget(m);
}

/// One DataRow cell of a concrete shape: `K < 0` is NULL, otherwise `K` arbitrary bytes.
fn cell<const K: i32>() -> Option<Vec<u8>> {
    if K < 0 {
        None
    } else {
        let mut v = Vec::with_capacity(K as usize);
        let mut i = 0;
        while i < K {
            v.push(kani::any());
            i += 1;
        }
        Some(v)
    }
}

fn check_cell(c: &mut Cur, v: &Option<Vec<u8>>) {
    match v {
        None => assert!(c.i32() == -1, "NULL is length -1"),
        Some(b) => {
            assert!(c.i32() == b.len() as i32, "cell length");
            assert!(c.expect_bytes(b), "cell bytes");
        }
    }
}

fn data_row(values: Vec<Option<Vec<u8>>>) {
    let n = values.len();
    let m = BackendMessage::DataRow { values };
    let out = encode(&m);
    let c = open_frame(&out, b'D');
    assert!(c.is_some(), "one frame, right type, length field == bytes after the type byte");
    let mut c = c.unwrap();
    assert!(c.i16() == n as i16, "column count");
    if let BackendMessage::DataRow { values } = &m {
        let mut i = 0;
        while i < n {
            check_cell(&mut c, &values[i]);
            i += 1;
        }
    }
    assert!(c.at_end(), "nothing but the documented fields inside the frame");
    kani::cover!(true, "reached");
    std::mem::forget(m);
}

macro_rules! data_row_shape {
    ($name:ident, [$($k:expr),*]) => {
        #[kani::proof]
        #[kani::unwind(7)]
        fn $name() {
            let mut values: Vec<Option<Vec<u8>>> = Vec::with_capacity(4);
            $( values.push(cell::<{ $k }>()); )*
            data_row(values);
        }
    };
}
data_row_shape!(c28_data_row_empty, []);
data_row_shape!(c28_data_row_null, [-1]);
data_row_shape!(c28_data_row_s1, [1]);
data_row_shape!(c28_data_row_s0_null_s2, [0, -1, 2]);
data_row_shape!(c28_data_row_null_null, [-1, -1]);
data_row_shape!(c28_data_row_s2_s1, [2, 1]);
data_row_shape!(c28_data_row_s1_null_s1_null, [1, -1, 1, -1]);

fn error_like<const N: usize>(notice: bool) {
    let (k1, k2): (u8, u8) = (kani::any(), kani::any());
    kani::assume(k1 != 0 && k2 != 0 && k1 != k2);
    let mut fields: HashMap<u8, String> = HashMap::new();
    if N >= 1 {
        fields.insert(k1, ascii::<2>(false));
    }
    if N >= 2 {
        fields.insert(k2, ascii::<1>(false));
    }
    let m = if notice {
        BackendMessage::NoticeResponse { fields }
    } else {
        BackendMessage::ErrorResponse { fields }
    };
    let out = encode(&m);
    let c = open_frame(&out, if notice { b'N' } else { b'E' });
    assert!(c.is_some(), "one frame, right type, length field == bytes after the type byte");
    let mut c = c.unwrap();
    let fields = match &m {
        BackendMessage::NoticeResponse { fields } | BackendMessage::ErrorResponse { fields } => fields,
        _ => unreachable!(),
    };
    // the model map iterates in insertion order
    if N >= 1 {
        assert!(c.u8() == k1, "field type 1");
        assert!(c.expect_cstr(fields.entries()[0].1.as_bytes()), "field value 1");
    }
    if N >= 2 {
        assert!(c.u8() == k2, "field type 2");
        assert!(c.expect_cstr(fields.entries()[1].1.as_bytes()), "field value 2");
    }
    assert!(c.u8() == 0, "terminator");
    assert!(c.at_end(), "nothing but the documented fields inside the frame");
    kani::cover!(true, "reached");
    std::mem::forget(m);
}

macro_rules! error_shape {
    ($name:ident, $n:expr, $notice:expr) => {
        #[kani::proof]
        #[kani::unwind(7)]
        fn $name() {
            error_like::<$n>($notice);
        }
    };
}
error_shape!(c28_error_response_0, 0, false);
error_shape!(c28_error_response_1, 1, false);
error_shape!(c28_error_response_2, 2, false);
error_shape!(c28_notice_response_0, 0, true);
error_shape!(c28_notice_response_2, 2, true);

// ------------------------------------------------------------------ appended encoding
//
// `encode(&self, buf)` APPENDS to the caller's buffer: whatever is already in it must stay
// untouched and the appended bytes alone must be one well-formed frame.

fn encode_after_prefix(m: &BackendMessage, ty: u8) {
    let prefix: [u8; 3] = kani::any();
    let mut buf = BytesMut::new();
    {
        use bytes::BufMut;
        buf.put_slice(&prefix);
    }
    m.encode(&mut buf);
    assert!(buf.len() >= 3 + 5, "something was appended");
    assert!(buf[0] == prefix[0] && buf[1] == prefix[1] && buf[2] == prefix[2], "bytes already in the buffer are untouched");
    let c = open_frame(&buf[3..], ty);
    assert!(c.is_some(), "the appended bytes are one frame whose length field counts the bytes after its type byte");
}

#[kani::proof]
#[kani::unwind(7)]
fn c28_append_data_row() {
    let mut values: Vec<Option<Vec<u8>>> = Vec::with_capacity(2);
    values.push(cell::<1>());
    values.push(cell::<{ -1 }>());
    let m = BackendMessage::DataRow { values };
    encode_after_prefix(&m, b'D');
    kani::cover!(true, "reached");
    std::mem::forget(m);
}

#[kani::proof]
#[kani::unwind(7)]
fn c28_append_row_description() {
    let mut fields = Vec::with_capacity(1);
    fields.push(any_field::<1>());
    let m = BackendMessage::RowDescription { fields };
    encode_after_prefix(&m, b'T');
    kani::cover!(true, "reached");
    std::mem::forget(m);
}

#[kani::proof]
#[kani::unwind(7)]
fn c28_append_command_complete() {
    let m = BackendMessage::CommandComplete { tag: ascii::<2>(false) };
    encode_after_prefix(&m, b'C');
    kani::cover!(true, "reached");
    std::mem::forget(m);
}

#[kani::proof]
#[kani::unwind(7)]
fn c28_append_ready_and_error() {
    let m = BackendMessage::ReadyForQuery { status: TransactionStatus::Idle };
    encode_after_prefix(&m, b'Z');
    let fields: HashMap<u8, String> = HashMap::new();
    let e = BackendMessage::ErrorResponse { fields };
    encode_after_prefix(&e, b'E');
    let p = BackendMessage::ParameterStatus { name: ascii::<1>(false), value: ascii::<1>(false) };
    encode_after_prefix(&p, b'S');
    kani::cover!(true, "reached");
    std::mem::forget((m, e, p));
}
