//! Independent reader for PostgreSQL v3 backend frames, written from the protocol
//! documentation ("Message Formats"), not from vibesql's encoder.  Cursor over a byte slice;
//! every read is bounds-checked and reports failure instead of panicking.

pub struct Cur<'a> {
    pub b: &'a [u8],
    pub p: usize,
    pub ok: bool,
}

impl<'a> Cur<'a> {
    pub fn new(b: &'a [u8]) -> Self {
        Cur { b, p: 0, ok: true }
    }
    pub fn u8(&mut self) -> u8 {
        if self.ok && self.p < self.b.len() {
            let v = self.b[self.p];
            self.p += 1;
            v
        } else {
            self.ok = false;
            0
        }
    }
    pub fn i16(&mut self) -> i16 {
        let a = self.u8();
        let b = self.u8();
        i16::from_be_bytes([a, b])
    }
    pub fn i32(&mut self) -> i32 {
        let a = self.u8();
        let b = self.u8();
        let c = self.u8();
        let d = self.u8();
        i32::from_be_bytes([a, b, c, d])
    }
    /// Expect the next `n` bytes to equal `s[..n]`, then consume them.
    pub fn expect_bytes(&mut self, s: &[u8]) -> bool {
        let mut i = 0;
        let mut same = true;
        while i < s.len() {
            if self.u8() != s[i] {
                same = false;
            }
            i += 1;
        }
        same && self.ok
    }
    /// Expect a NUL-terminated string equal to `s` (the terminator is the first NUL met).
    pub fn expect_cstr(&mut self, s: &[u8]) -> bool {
        let mut i = 0;
        let mut same = true;
        while i < s.len() {
            let c = self.u8();
            if c != s[i] || c == 0 {
                same = false;
            }
            i += 1;
        }
        let t = self.u8();
        same && t == 0 && self.ok
    }
    pub fn at_end(&self) -> bool {
        self.ok && self.p == self.b.len()
    }
}

/// Frame envelope: returns a cursor positioned after the 5-byte header, having checked that the
/// buffer holds exactly one frame of type `ty` whose length field counts everything after the
/// type byte.
pub fn open_frame<'a>(out: &'a [u8], ty: u8) -> Option<Cur<'a>> {
    if out.len() < 5 || out[0] != ty {
        return None;
    }
    let lenf = i32::from_be_bytes([out[1], out[2], out[3], out[4]]);
    if lenf < 4 || lenf as usize != out.len() - 1 {
        return None;
    }
    let mut c = Cur::new(out);
    c.p = 5;
    Some(c)
}
