//! vk_server — Kani harnesses over vibesql-server's real `protocol/messages.rs`.
//! The file is regenerated from /repo's current source by build.rs and compiled in place.
#![allow(dead_code, unused_imports, unused_variables)]
#![allow(clippy::all)]

pub mod shim_map;
pub mod stubs;

pub mod messages {
    include!(concat!(env!("OUT_DIR"), "/messages_gen.rs"));
}

pub mod frame;

#[cfg(kani)]
mod c27;
#[cfg(kani)]
mod c28;
