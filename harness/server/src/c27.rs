//! C27 — wire-protocol message decoding is safe and respects framing.
//!
//! Functions encoded (real code, regenerated from /repo on every build):
//! `FrontendMessage::decode`, `FrontendMessage::decode_startup`, `read_cstring`.
//! Environment models: Vec-backed `bytes` shim, association-list `HashMap`, naive UTF-8
//! validator in place of `String::from_utf8`.
use bytes::{BufMut, BytesMut};

use crate::messages::*;

/// Total decoding + framing on every buffer of exactly L bytes.
fn decode_total<const L: usize>() {
    let bytes: [u8; L] = kani::any();
    let mut buf = BytesMut::from(&bytes[..]);
    let r = FrontendMessage::decode(&mut buf); // any panic / overflow inside is a failed check
    assert!(buf.len() <= L, "decode never grows the buffer");
    let consumed = L - buf.len();
    // bytes after the consumed prefix are untouched (universally quantified index j)
    let j: usize = kani::any();
    if j < buf.len() {
        assert!(buf[j] == bytes[consumed + j], "unconsumed bytes are untouched");
    }
    match &r {
        Ok(None) => {
            assert!(consumed == 0, "asking for more bytes consumes nothing");
        }
        Ok(Some(m)) => {
            assert!(L >= 5, "a message needs a header");
            let declared = i32::from_be_bytes([bytes[1], bytes[2], bytes[3], bytes[4]]);
            assert!(declared >= 4, "a decoded frame declares a length that includes the length field");
            let frame = 1 + declared as usize;
            assert!(frame <= L, "a decoded frame was completely available");
            assert!(consumed == frame, "a decoded message consumes exactly its declared frame");
            match m {
                FrontendMessage::Query { query } => {
                    assert!(bytes[0] == b'Q', "type byte");
                    check_cstring_payload::<L>(&bytes, frame, query);
                }
                FrontendMessage::Password { password } => {
                    assert!(bytes[0] == b'p', "type byte");
                    check_cstring_payload::<L>(&bytes, frame, password);
                }
                FrontendMessage::Terminate => {
                    assert!(bytes[0] == b'X', "type byte");
                }
                _ => assert!(false, "decode yields only Query/Password/Terminate"),
            }
        }
        Err(_) => {
            assert!(L >= 5, "errors need a header");
            let declared = i32::from_be_bytes([bytes[1], bytes[2], bytes[3], bytes[4]]);
            if declared >= 4 {
                assert!(consumed <= 1 + declared as usize, "errors never consume beyond the declared frame");
            } else {
                assert!(consumed == 0, "a malformed length consumes nothing");
            }
        }
    }
    kani::cover!(matches!(r, Ok(Some(_))) || L < 5, "some message decoded");
    kani::cover!(matches!(r, Ok(None)), "asks for more");
    kani::cover!(matches!(r, Err(_)) || L < 5, "some error");
    std::mem::forget(r);
}

/// The decoded string is exactly the frame payload up to its first NUL.
fn check_cstring_payload<const L: usize>(bytes: &[u8; L], frame: usize, s: &str) {
    let n = s.len();
    assert!(crate::stubs::str_len_consistent(s, 0), "string came from exactly one from_utf8 call");
    assert!(n < L && 5 + n < frame, "string + terminator lie inside the frame");
    let i: usize = kani::any(); // universally quantified index
    if i < n {
        let b = crate::stubs::str_byte(s, 0, i);
        assert!(bytes[5 + i] == b, "string bytes are the payload bytes");
        assert!(b != 0, "no NUL inside a decoded string");
    }
    assert!(bytes[5 + n] == 0, "terminated by NUL");
}

macro_rules! decode_len {
    ($name:ident, $l:expr, $unw:expr) => {
        #[kani::proof]
        #[kani::unwind($unw)]
        #[kani::stub(std::string::String::from_utf8, crate::stubs::from_utf8_naive)]
        fn $name() {
            decode_total::<$l>();
        }
    };
}

decode_len!(c27_decode_len0, 0, 3);
decode_len!(c27_decode_len4, 4, 7);
decode_len!(c27_decode_len5, 5, 8);
decode_len!(c27_decode_len6, 6, 9);
decode_len!(c27_decode_len7, 7, 10);
decode_len!(c27_decode_len8, 8, 11);
decode_len!(c27_decode_len9, 9, 12);
decode_len!(c27_decode_len10, 10, 13);
decode_len!(c27_decode_len11, 11, 14);
decode_len!(c27_decode_len12, 12, 15);

/// Startup decoding on every buffer of exactly L bytes.
fn startup_total<const L: usize>() {
    let bytes: [u8; L] = kani::any();
    let mut buf = BytesMut::from(&bytes[..]);
    let r = FrontendMessage::decode_startup(&mut buf);
    assert!(buf.len() <= L, "decode never grows the buffer");
    let consumed = L - buf.len();
    let j: usize = kani::any(); // universally quantified index
    if j < buf.len() {
        assert!(buf[j] == bytes[consumed + j], "unconsumed bytes are untouched");
    }
    match &r {
        Ok(None) => {
            assert!(consumed == 0, "asking for more bytes consumes nothing");
        }
        Ok(Some(m)) => {
            assert!(L >= 8, "a startup packet has length + version");
            let declared = i32::from_be_bytes([bytes[0], bytes[1], bytes[2], bytes[3]]);
            assert!(declared >= 8, "a decoded startup packet declares at least length + version");
            assert!(declared as usize <= L, "a decoded startup packet was completely available");
            assert!(consumed == declared as usize, "a decoded startup packet consumes exactly its declared frame");
            let version = i32::from_be_bytes([bytes[4], bytes[5], bytes[6], bytes[7]]);
            match m {
                FrontendMessage::SSLRequest => assert!(version == 80877103, "SSL request code"),
                FrontendMessage::Startup { protocol_version, params } => {
                    assert!(*protocol_version == version, "version field");
                    assert!(version != 80877103, "SSL request code is not a protocol version");
                    // every parameter costs at least key(1)+NUL+value(0)+NUL bytes of the packet
                    assert!(8 + 3 * params.len() + 1 <= declared as usize, "parameters fit in the packet");
                }
                _ => assert!(false, "decode_startup yields only Startup/SSLRequest"),
            }
        }
        Err(_) => {
            assert!(L >= 4, "errors need a length");
            let declared = i32::from_be_bytes([bytes[0], bytes[1], bytes[2], bytes[3]]);
            if declared >= 8 {
                assert!(consumed <= declared as usize, "errors never consume beyond the declared packet");
            } else {
                assert!(consumed == 0, "a malformed length consumes nothing");
            }
        }
    }
    kani::cover!(matches!(r, Ok(Some(_))) || L < 8, "some startup decoded");
    kani::cover!(matches!(r, Ok(None)) || L >= 4, "asks for more");
    std::mem::forget(r);
}

macro_rules! startup_len {
    ($name:ident, $l:expr, $unw:expr) => {
        #[kani::proof]
        #[kani::unwind($unw)]
        #[kani::stub(std::string::String::from_utf8, crate::stubs::from_utf8_naive)]
        fn $name() {
            startup_total::<$l>();
        }
    };
}

startup_len!(c27_startup_len3, 3, 6);
startup_len!(c27_startup_len4, 4, 7);
startup_len!(c27_startup_len7, 7, 10);
startup_len!(c27_startup_len8, 8, 11);
startup_len!(c27_startup_len9, 9, 12);
startup_len!(c27_startup_len10, 10, 13);
startup_len!(c27_startup_len11, 11, 14);
startup_len!(c27_startup_len12, 12, 15);

/// decode(encode(Query{q}) ++ tail) == Query{q}, tail untouched.  q: K non-NUL ASCII bytes,
/// tail: T arbitrary bytes.  The frame is assembled by hand from the protocol definition.
fn roundtrip<const K: usize, const T: usize>(ty: u8) {
    let q: [u8; K] = kani::any();
    let tail: [u8; T] = kani::any();
    let mut buf = BytesMut::new();
    buf.put_u8(ty);
    buf.put_i32((4 + K + 1) as i32);
    let mut i = 0;
    while i < K {
        kani::assume(q[i] != 0 && q[i] < 0x80);
        buf.put_u8(q[i]);
        i += 1;
    }
    buf.put_u8(0);
    i = 0;
    while i < T {
        buf.put_u8(tail[i]);
        i += 1;
    }
    let r = FrontendMessage::decode(&mut buf);
    let s: &String = match &r {
        Ok(Some(FrontendMessage::Query { query })) => {
            assert!(ty == b'Q', "Query decodes from 'Q'");
            query
        }
        Ok(Some(FrontendMessage::Password { password })) => {
            assert!(ty == b'p', "Password decodes from 'p'");
            password
        }
        _ => {
            assert!(false, "a well-formed frame decodes to its message");
            return;
        }
    };
    assert!(s.len() == K, "string length");
    assert!(crate::stubs::str_len_consistent(s, 0), "string came from exactly one from_utf8 call");
    i = 0;
    while i < K {
        assert!(crate::stubs::str_byte(s, 0, i) == q[i], "string content");
        i += 1;
    }
    assert!(buf.len() == T, "following bytes are left in the buffer");
    i = 0;
    while i < T {
        assert!(buf[i] == tail[i], "following bytes untouched");
        i += 1;
    }
    kani::cover!(true, "reached");
    std::mem::forget(r);
}

#[kani::proof]
#[kani::unwind(10)]
#[kani::stub(std::string::String::from_utf8, crate::stubs::from_utf8_naive)]
fn c27_roundtrip_query_3_tail_3() {
    roundtrip::<3, 3>(b'Q');
}

#[kani::proof]
#[kani::unwind(10)]
#[kani::stub(std::string::String::from_utf8, crate::stubs::from_utf8_naive)]
fn c27_roundtrip_password_2_tail_4() {
    roundtrip::<2, 4>(b'p');
}

#[kani::proof]
#[kani::unwind(10)]
#[kani::stub(std::string::String::from_utf8, crate::stubs::from_utf8_naive)]
fn c27_roundtrip_query_0_tail_5() {
    roundtrip::<0, 5>(b'Q');
}

/// Terminate ('X', length 4) followed by a tail.
#[kani::proof]
#[kani::unwind(10)]
fn c27_roundtrip_terminate_tail_4() {
    let tail: [u8; 4] = kani::any();
    let mut buf = BytesMut::new();
    buf.put_u8(b'X');
    buf.put_i32(4);
    let mut i = 0;
    while i < 4 {
        buf.put_u8(tail[i]);
        i += 1;
    }
    let r = FrontendMessage::decode(&mut buf);
    assert!(matches!(r, Ok(Some(FrontendMessage::Terminate))), "Terminate decodes");
    assert!(buf.len() == 4, "tail left");
    i = 0;
    while i < 4 {
        assert!(buf[i] == tail[i], "tail untouched");
        i += 1;
    }
    std::mem::forget(r);
    kani::cover!(true, "reached");
}

/// Startup packet with one parameter (key K bytes, value V bytes) and a tail.
#[kani::proof]
#[kani::unwind(14)]
#[kani::stub(std::string::String::from_utf8, crate::stubs::from_utf8_naive)]
fn c27_roundtrip_startup_one_param() {
    const K: usize = 2;
    const V: usize = 1;
    const T: usize = 2;
    let key: [u8; K] = kani::any();
    let val: [u8; V] = kani::any();
    let tail: [u8; T] = kani::any();
    let version: i32 = kani::any();
    kani::assume(version != 80877103);
    let total = 4 + 4 + K + 1 + V + 1 + 1;
    let mut buf = BytesMut::new();
    buf.put_i32(total as i32);
    buf.put_i32(version);
    let mut i = 0;
    while i < K {
        kani::assume(key[i] != 0 && key[i] < 0x80);
        buf.put_u8(key[i]);
        i += 1;
    }
    buf.put_u8(0);
    i = 0;
    while i < V {
        kani::assume(val[i] != 0 && val[i] < 0x80);
        buf.put_u8(val[i]);
        i += 1;
    }
    buf.put_u8(0);
    buf.put_u8(0);
    i = 0;
    while i < T {
        buf.put_u8(tail[i]);
        i += 1;
    }
    let r = FrontendMessage::decode_startup(&mut buf);
    match &r {
        Ok(Some(FrontendMessage::Startup { protocol_version, params })) => {
            assert!(*protocol_version == version, "version");
            assert!(params.len() == 1, "one parameter");
            let (k, v) = &params.entries()[0];
            assert!(k.len() == K && v.len() == V, "parameter sizes");
            assert!(crate::stubs::str_len_consistent(k, 0) && crate::stubs::str_len_consistent(v, 1), "ghost");
            assert!(crate::stubs::str_byte(k, 0, 0) == key[0] && crate::stubs::str_byte(k, 0, 1) == key[1], "key content");
            assert!(crate::stubs::str_byte(v, 1, 0) == val[0], "value content");
        }
        _ => assert!(false, "a well-formed startup packet decodes"),
    }
    assert!(buf.len() == T, "following bytes are left in the buffer");
    assert!(buf[0] == tail[0] && buf[1] == tail[1], "following bytes untouched");
    kani::cover!(true, "reached");
    std::mem::forget(r);
}
