//! C07 — aggregates follow their SQL definitions (accumulator kernel).
//!
//! Functions encoded (real code via `select::verif_hooks::Acc`):
//! `AggregateAccumulator::{new, accumulate, finalize, combine}`, `add_sql_values`,
//! `divide_sql_value`, `compare_sql_values`, and through them `eval_binary_op(Plus)`.
//!
//! Oracle: the SQL definitions, computed in the harness: COUNT = number of non-NULL inputs;
//! SUM = exact i128 sum of the non-NULL inputs (NULL when there are none; NULL/absent when the
//! exact sum leaves the 64-bit range); AVG = SUM / COUNT; MIN/MAX by value; all NULL on
//! empty or all-NULL input.
use vibesql_executor::select::verif_hooks as s;
use vibesql_types::SqlValue;

use crate::gen::*;

fn feed(acc: &mut s::Acc, xs: &[SqlValue]) {
    let mut i = 0;
    while i < xs.len() {
        acc.accumulate(&xs[i]);
        i += 1;
    }
}

/// Reference over a slice of Integer-or-NULL cells.
struct Ref {
    count: i64,
    sum: i128,
    min: i128,
    max: i128,
}
fn reference(xs: &[SqlValue]) -> Ref {
    let mut r = Ref { count: 0, sum: 0, min: i128::MAX, max: i128::MIN };
    let mut i = 0;
    while i < xs.len() {
        if let Some(v) = exact(&xs[i]) {
            r.count += 1;
            r.sum += v;
            if v < r.min {
                r.min = v;
            }
            if v > r.max {
                r.max = v;
            }
        }
        i += 1;
    }
    r
}

/// Did every prefix sum stay inside i64 (so that no overflow error/NULL is legitimate)?
fn prefix_sums_fit(xs: &[SqlValue]) -> bool {
    let mut s: i128 = 0;
    let mut ok = true;
    let mut i = 0;
    while i < xs.len() {
        if let Some(v) = exact(&xs[i]) {
            s += v;
            if s < i64::MIN as i128 || s > i64::MAX as i128 {
                ok = false;
            }
        }
        i += 1;
    }
    ok
}

#[derive(Clone, Copy, PartialEq, Eq)]
enum F {
    Count,
    Sum,
    Avg,
    Min,
    Max,
}

/// Fresh non-DISTINCT accumulator (direct constructor: the `distinct` flag is a literal, so the
/// symbolic executor prunes the HashSet arms; `Acc::new` is checked by `c07_new_*`).
fn fresh(f: F) -> s::Acc {
    match f {
        F::Count => s::Acc::count(),
        F::Sum => s::Acc::sum(),
        F::Avg => s::Acc::avg(),
        F::Min => s::Acc::min(),
        F::Max => s::Acc::max(),
    }
}

/// Stubs for the date-arithmetic entry points of `Addition::add`: unreachable for integer
/// inputs. They *assert* unreachability, so the cut is checked by the solver, not assumed.
pub fn stub_apply_interval(
    _date_str: &str,
    _interval: &vibesql_types::Interval,
    _is_addition: bool,
) -> Result<SqlValue, vibesql_executor::ExecutorError> {
    assert!(false, "date arithmetic is unreachable for integer aggregate inputs");
    Ok(SqlValue::Null)
}
pub fn stub_coerce_to_date(_v: &SqlValue) -> Result<SqlValue, vibesql_executor::ExecutorError> {
    assert!(false, "date coercion is unreachable for integer aggregate inputs");
    Ok(SqlValue::Null)
}

fn check_result(f: F, xs: &[SqlValue], v: &SqlValue) {
    let r = reference(xs);
    match f {
        F::Count => {
            assert!(*v == SqlValue::Integer(r.count), "COUNT(x) is the number of non-NULL inputs (never NULL)")
        }
        F::Sum => {
            if r.count == 0 {
                assert!(v.is_null(), "SUM over no non-NULL input is NULL");
            } else if prefix_sums_fit(xs) {
                assert!(exact(v) == Some(r.sum), "SUM is the exact sum of the non-NULL inputs");
            } else {
                assert!(v.is_null() || exact(v) == Some(r.sum), "SUM beyond 64 bits is NULL, never a wrapped value");
            }
        }
        F::Avg => {
            if r.count == 0 {
                assert!(v.is_null(), "AVG over no non-NULL input is NULL");
            } else if prefix_sums_fit(xs) {
                let want = (r.sum as i64) as f64 / r.count as f64;
                assert!(matches!(v, SqlValue::Numeric(q) if *q == want), "AVG is SUM / COUNT of the non-NULL inputs");
            }
        }
        F::Min => {
            if r.count == 0 {
                assert!(v.is_null(), "MIN over no non-NULL input is NULL");
            } else {
                assert!(exact(v) == Some(r.min), "MIN is the least non-NULL input");
            }
        }
        F::Max => {
            if r.count == 0 {
                assert!(v.is_null(), "MAX over no non-NULL input is NULL");
            } else {
                assert!(exact(v) == Some(r.max), "MAX is the greatest non-NULL input");
            }
        }
    }
}

pub fn stub_date_fmt(_d: &vibesql_types::Date, _f: &mut std::fmt::Formatter<'_>) -> std::fmt::Result {
    assert!(false, "formatting a DATE is unreachable for integer aggregate inputs");
    Ok(())
}
pub fn stub_ts_fmt(_d: &vibesql_types::Timestamp, _f: &mut std::fmt::Formatter<'_>) -> std::fmt::Result {
    assert!(false, "formatting a TIMESTAMP is unreachable for integer aggregate inputs");
    Ok(())
}

macro_rules! agg {
    ($name:ident, $f:ident, [$($v:ident),*]) => {
        #[kani::proof]
        #[kani::unwind(8)]
        #[kani::stub(vibesql_executor::evaluator::operators::arithmetic::addition::apply_interval_to_date, stub_apply_interval)]
        #[kani::stub(vibesql_executor::evaluator::coercion::coerce_to_date, stub_coerce_to_date)]
        #[kani::stub(<vibesql_types::Date as std::fmt::Display>::fmt, stub_date_fmt)]
        #[kani::stub(<vibesql_types::Timestamp as std::fmt::Display>::fmt, stub_ts_fmt)]
        #[kani::stub(std::fmt::format, crate::c03::format_stub)]
        fn $name() {
            let xs = [$(any_of(V::$v)),*];
            let mut acc = fresh(F::$f);
            // inputs are fed from stack locals so that their (concrete) variants stay visible
            // to the symbolic executor
            let mut i = 0;
            while i < xs.len() {
                acc.accumulate(&xs[i]);
                i += 1;
            }
            let v = acc.finalize();
            check_result(F::$f, &xs, &v);
            kani::cover!(true, "reached");
            std::mem::forget((acc, v, xs));
        }
    };
}
agg!(c07_count_empty, Count, []);
agg!(c07_count_null, Count, [Null]);
agg!(c07_count_int, Count, [Integer]);
agg!(c07_count_int_null, Count, [Integer, Null]);
agg!(c07_count_null_int, Count, [Null, Integer]);
agg!(c07_count_int_int, Count, [Integer, Integer]);
agg!(c07_sum_empty, Sum, []);
agg!(c07_sum_null, Sum, [Null]);
agg!(c07_sum_int, Sum, [Integer]);
agg!(c07_sum_null_int, Sum, [Null, Integer]);
agg!(c07_sum_smallint, Sum, [Smallint]);
agg!(c07_avg_empty, Avg, []);
agg!(c07_avg_null, Avg, [Null]);
agg!(c07_avg_int, Avg, [Integer]);
agg!(c07_avg_null_int, Avg, [Null, Integer]);
agg!(c07_min_empty, Min, []);
agg!(c07_min_null, Min, [Null]);
agg!(c07_min_int, Min, [Integer]);
agg!(c07_min_null_int, Min, [Null, Integer]);
agg!(c07_max_empty, Max, []);
agg!(c07_max_null, Max, [Null]);
agg!(c07_max_int, Max, [Integer]);
agg!(c07_max_null_int, Max, [Null, Integer]);
// two non-NULL inputs: the second step starts from a mutated accumulator (expensive)
agg!(c07_min_int_int, Min, [Integer, Integer]);
agg!(c07_max_int_int, Max, [Integer, Integer]);
agg!(c07_sum_int_int, Sum, [Integer, Integer]);

/// `AggregateAccumulator::new` maps each function name (any case) to an accumulator with the
/// right empty-input result and rejects unknown names (one harness per name).
macro_rules! new_name {
    ($name:ident, $s:expr, $zero:expr) => {
        #[kani::proof]
        #[kani::unwind(12)]
        fn $name() {
            let a = s::Acc::new($s, false);
            match &a {
                Ok(acc) => {
                    let v = acc.finalize();
                    if $zero {
                        assert!(v == SqlValue::Integer(0), "COUNT of nothing is 0");
                    } else {
                        assert!(v.is_null(), "SUM/AVG/MIN/MAX of nothing is NULL");
                    }
                    std::mem::forget(v);
                }
                Err(_) => assert!(false, "a standard aggregate name is accepted"),
            }
            kani::cover!(true, "reached");
            std::mem::forget(a);
        }
    };
}
new_name!(c07_new_count, "count", true);
new_name!(c07_new_sum, "SUM", false);
new_name!(c07_new_avg, "Avg", false);
new_name!(c07_new_min, "MIN", false);
new_name!(c07_new_max, "max", false);

#[kani::proof]
#[kani::unwind(12)]
fn c07_new_unknown() {
    let a = s::Acc::new("MEDIAN", false);
    assert!(a.is_err(), "unknown aggregate names are rejected");
    kani::cover!(true, "reached");
    std::mem::forget(a);
}

// ------------------------------------------------------------------ SUM / AVG step kernels
//
// The accumulator's SUM/AVG step is `sum = add_sql_values(sum, value)` and AVG finalises with
// `divide_sql_value(sum, count)`.  Whole accumulations with non-NULL values are out of CBMC's
// reach (see the registry), so the step functions are checked directly with concrete operand
// variants: the running total is exact, or NULL when it leaves the 64-bit range - never a
// panic, never a wrapped value.
macro_rules! sum_step {
    ($name:ident, $l:ident, $r:ident) => {
        #[kani::proof]
        #[kani::unwind(8)]
        fn $name() {
            let a = any_of(V::$l);
            let b = any_of(V::$r);
            let r = s::add_sql_values(&a, &b);
            match (exact(&a), exact(&b)) {
                (Some(x), Some(y)) => {
                    let want = x + y;
                    if want >= i64::MIN as i128 && want <= i64::MAX as i128 {
                        assert!(exact(&r) == Some(want), "SUM step is the exact sum");
                    } else {
                        assert!(r.is_null(), "a SUM step beyond 64 bits yields NULL, never a wrapped value");
                    }
                }
                _ => assert!(r.is_null(), "SUM step with a NULL operand is NULL"),
            }
            kani::cover!(!r.is_null(), "a total");
            kani::cover!(r.is_null(), "NULL");
            std::mem::forget((r, a, b));
        }
    };
}
sum_step!(c07_sum_step_integer_integer, Integer, Integer);
sum_step!(c07_sum_step_integer_bigint, Integer, Bigint);
sum_step!(c07_sum_step_integer_smallint, Integer, Smallint);

#[kani::proof]
#[kani::unwind(8)]
fn c07_sum_step_null() {
    let b = any_of(V::Integer);
    let r = s::add_sql_values(&SqlValue::Null, &b);
    assert!(r.is_null(), "SUM step with a NULL total stays NULL");
    kani::cover!(true, "reached");
    std::mem::forget((r, b));
}

/// AVG finalisation: Integer total / positive count as DOUBLE/NUMERIC value.
#[kani::proof]
#[kani::unwind(8)]
fn c07_avg_finalize() {
    let total: i64 = kani::any();
    let count: i64 = kani::any();
    kani::assume(count >= 1 && count <= 4);
    let r = s::divide_sql_value(&SqlValue::Integer(total), count);
    let want = total as f64 / count as f64;
    assert!(matches!(r, SqlValue::Numeric(q) if q == want), "AVG is total / count");
    let n = s::divide_sql_value(&SqlValue::Null, count);
    assert!(n.is_null(), "AVG of a NULL total is NULL");
    kani::cover!(true, "reached");
    std::mem::forget((r, n));
}
