//! C01 / C06 — operator-level SELECT semantics (reference agreement and 3VL laws).
//!
//! Functions encoded (real code via `evaluator::verif_hooks`): `eval_binary_op` for the six
//! comparisons, AND, OR, `+ - *`; `eval_between_static`; `values_are_equal` (simple CASE);
//! `eval_unary_op(NOT)`; `SqlValue::is_null` (IS NULL).
//!
//! Reference semantics (written from the SQL standard / the subset vibesql and SQLite share):
//! NULL-propagating comparisons by mathematical value, Kleene AND/OR/NOT, exact integer
//! arithmetic (error allowed only when the exact result leaves the 64-bit range).
use vibesql_ast::{BinaryOperator as B, UnaryOperator};
use vibesql_executor::evaluator::verif_hooks as h;
use vibesql_executor::ExecutorError;
use vibesql_types::{SqlMode, SqlValue};

use crate::gen::*;

/// Three-valued truth value.
#[derive(Clone, Copy, PartialEq, Eq, Debug)]
pub enum T3 {
    T,
    F,
    N,
}

pub fn t3(v: &SqlValue) -> Option<T3> {
    match v {
        SqlValue::Boolean(true) => Some(T3::T),
        SqlValue::Boolean(false) => Some(T3::F),
        SqlValue::Null => Some(T3::N),
        _ => None,
    }
}
pub fn not3(a: T3) -> T3 {
    match a {
        T3::T => T3::F,
        T3::F => T3::T,
        T3::N => T3::N,
    }
}
pub fn and3(a: T3, b: T3) -> T3 {
    if a == T3::F || b == T3::F {
        T3::F
    } else if a == T3::T && b == T3::T {
        T3::T
    } else {
        T3::N
    }
}
pub fn or3(a: T3, b: T3) -> T3 {
    if a == T3::T || b == T3::T {
        T3::T
    } else if a == T3::F && b == T3::F {
        T3::F
    } else {
        T3::N
    }
}
fn of_bool(b: bool) -> T3 {
    if b {
        T3::T
    } else {
        T3::F
    }
}

/// Mathematical value of an exact numeric / boolean operand; None for NULL.
fn val(v: &SqlValue) -> Option<i128> {
    exact(v)
}

fn cmp_ref(op: u8, l: &SqlValue, r: &SqlValue) -> T3 {
    match (val(l), val(r)) {
        (Some(a), Some(b)) => of_bool(match op {
            0 => a == b,
            1 => a != b,
            2 => a < b,
            3 => a <= b,
            4 => a > b,
            _ => a >= b,
        }),
        _ => T3::N,
    }
}

fn cmp_op(op: u8) -> B {
    match op {
        0 => B::Equal,
        1 => B::NotEqual,
        2 => B::LessThan,
        3 => B::LessThanOrEqual,
        4 => B::GreaterThan,
        _ => B::GreaterThanOrEqual,
    }
}

/// Evaluate one comparison with the real operator and return its 3VL value; asserts that the
/// operator answers (no error) with a BOOLEAN or NULL.
fn real_cmp(op: u8, l: &SqlValue, r: &SqlValue) -> T3 {
    let res = h::eval_binary_op(l, &cmp_op(op), r, SqlMode::default());
    let out = match &res {
        Ok(v) => t3(v),
        Err(_) => None,
    };
    std::mem::forget(res);
    assert!(out.is_some(), "a comparison of comparable operands yields TRUE, FALSE or NULL");
    out.unwrap()
}

/// All six comparisons on one operand pair: reference agreement + complement laws (C06).
macro_rules! comparisons {
    ($name:ident, $l:ident, $r:ident) => {
        #[kani::proof]
        #[kani::unwind(8)]
        fn $name() {
            let l = any_of(V::$l);
            let r = any_of(V::$r);
            let eq = real_cmp(0, &l, &r);
            let ne = real_cmp(1, &l, &r);
            let lt = real_cmp(2, &l, &r);
            let le = real_cmp(3, &l, &r);
            let gt = real_cmp(4, &l, &r);
            let ge = real_cmp(5, &l, &r);
            assert!(eq == cmp_ref(0, &l, &r), "= agrees with the reference");
            assert!(ne == cmp_ref(1, &l, &r), "<> agrees with the reference");
            assert!(lt == cmp_ref(2, &l, &r), "< agrees with the reference");
            assert!(le == cmp_ref(3, &l, &r), "<= agrees with the reference");
            assert!(gt == cmp_ref(4, &l, &r), "> agrees with the reference");
            assert!(ge == cmp_ref(5, &l, &r), ">= agrees with the reference");
            // three-valued complement / partition laws (C06)
            assert!(ne == not3(eq), "<> is NOT =");
            assert!(ge == not3(lt), ">= is NOT <");
            assert!(le == not3(gt), "<= is NOT >");
            assert!(le == or3(lt, eq), "<= is < OR =");
            let n_true = (lt == T3::T) as u8 + (eq == T3::T) as u8 + (gt == T3::T) as u8;
            assert!(if lt == T3::N { n_true == 0 } else { n_true == 1 }, "exactly one of <, =, > is TRUE unless NULL");
            // reachability witnesses: NULL operands give NULL, others give both outcomes
            kani::cover!(eq == T3::T || eq == T3::N, "equal or unknown operands");
            kani::cover!(lt == T3::T || lt == T3::N, "ordered or unknown operands");
            std::mem::forget((l, r));
        }
    };
}
comparisons!(c01_cmp_integer_integer, Integer, Integer);
comparisons!(c01_cmp_integer_null, Integer, Null);
comparisons!(c01_cmp_null_integer, Null, Integer);
comparisons!(c01_cmp_smallint_bigint, Smallint, Bigint);
comparisons!(c01_cmp_bigint_integer, Bigint, Integer);
comparisons!(c01_cmp_boolean_integer, Boolean, Integer);
comparisons!(c01_cmp_integer_boolean, Integer, Boolean);
comparisons!(c01_cmp_boolean_boolean, Boolean, Boolean);

#[kani::proof]
#[kani::unwind(8)]
fn c01_cmp_null_null() {
    let (l, r) = (SqlValue::Null, SqlValue::Null);
    let mut op = 0u8;
    while op < 6 {
        assert!(real_cmp(op, &l, &r) == T3::N, "NULL compared with NULL is NULL");
        op += 1;
    }
    kani::cover!(true, "reached");
}

fn any3() -> SqlValue {
    match kani::any::<u8>() % 3 {
        0 => SqlValue::Null,
        1 => SqlValue::Boolean(true),
        _ => SqlValue::Boolean(false),
    }
}

fn real_logic(op: &B, l: &SqlValue, r: &SqlValue) -> T3 {
    let res = h::eval_binary_op(l, op, r, SqlMode::default());
    let out = match &res {
        Ok(v) => t3(v),
        Err(_) => None,
    };
    std::mem::forget(res);
    assert!(out.is_some(), "AND/OR of truth values yields TRUE, FALSE or NULL");
    out.unwrap()
}
fn real_not(v: &SqlValue) -> T3 {
    let res = h::eval_unary_op(&UnaryOperator::Not, v);
    let out = match &res {
        Ok(v) => t3(v),
        Err(_) => None,
    };
    std::mem::forget(res);
    assert!(out.is_some(), "NOT of a truth value yields TRUE, FALSE or NULL");
    out.unwrap()
}
fn as_value(t: T3) -> SqlValue {
    match t {
        T3::T => SqlValue::Boolean(true),
        T3::F => SqlValue::Boolean(false),
        T3::N => SqlValue::Null,
    }
}

/// Kleene tables for AND / OR / NOT, De Morgan, and the WHERE partition (exactly one of
/// p, NOT p, p IS NULL is TRUE) over all 9 operand combinations.
#[kani::proof]
#[kani::unwind(8)]
fn c06_kleene_and_or_not() {
    let a = any3();
    let b = any3();
    let (ta, tb) = (t3(&a).unwrap(), t3(&b).unwrap());
    let and = real_logic(&B::And, &a, &b);
    let or = real_logic(&B::Or, &a, &b);
    assert!(and == and3(ta, tb), "AND is Kleene conjunction");
    assert!(or == or3(ta, tb), "OR is Kleene disjunction");
    let na = real_not(&a);
    let nb = real_not(&b);
    assert!(na == not3(ta), "NOT is Kleene negation");
    // De Morgan through the real operators
    let n_and = real_not(&as_value(and));
    let or_of_nots = real_logic(&B::Or, &as_value(na), &as_value(nb));
    assert!(n_and == or_of_nots, "NOT (a AND b) = (NOT a) OR (NOT b)");
    let n_or = real_not(&as_value(or));
    let and_of_nots = real_logic(&B::And, &as_value(na), &as_value(nb));
    assert!(n_or == and_of_nots, "NOT (a OR b) = (NOT a) AND (NOT b)");
    // partition: exactly one of p, NOT p, p IS NULL
    let p = as_value(and);
    let cnt = (and == T3::T) as u8 + (n_and == T3::T) as u8 + p.is_null() as u8;
    assert!(cnt == 1, "exactly one of p, NOT p, p IS NULL holds");
    kani::cover!(and == T3::N, "unknown conjunction");
    kani::cover!(or == T3::T && ta == T3::N, "NULL OR TRUE");
}

/// BETWEEN / NOT BETWEEN agree with their expansion through the real comparison and logic
/// operators, for every NULL placement (operand variants concrete per harness).
macro_rules! between {
    ($name:ident, $e:ident, $lo:ident, $hi:ident) => {
        #[kani::proof]
        #[kani::unwind(8)]
        fn $name() {
            let e = any_of(V::$e);
            let lo = any_of(V::$lo);
            let hi = any_of(V::$hi);
            let ge = cmp_ref(5, &e, &lo);
            let le = cmp_ref(3, &e, &hi);
            let want = and3(ge, le);
            let r = h::eval_between_static(&e, &lo, &hi, false, false, SqlMode::default());
            let got = match &r {
                Ok(v) => t3(v),
                Err(_) => None,
            };
            std::mem::forget(r);
            assert!(got == Some(want), "e BETWEEN lo AND hi = (e >= lo) AND (e <= hi) in 3VL");
            let rn = h::eval_between_static(&e, &lo, &hi, true, false, SqlMode::default());
            let gotn = match &rn {
                Ok(v) => t3(v),
                Err(_) => None,
            };
            std::mem::forget(rn);
            assert!(gotn == Some(not3(want)), "NOT BETWEEN is the 3VL negation of BETWEEN");
            kani::cover!(want == T3::T || want == T3::N, "inside or unknown");
            kani::cover!(want == T3::F || want == T3::N, "outside or unknown");
            std::mem::forget((e, lo, hi));
        }
    };
}
between!(c06_between_int_int_int, Integer, Integer, Integer);
between!(c06_between_null_int_int, Null, Integer, Integer);
between!(c06_between_int_null_int, Integer, Null, Integer);
between!(c06_between_int_int_null, Integer, Integer, Null);
between!(c06_between_smallint_bigint_int, Smallint, Bigint, Integer);

/// Simple CASE matching: `values_are_equal` is SQL `=` restricted to TRUE.
macro_rules! case_eq {
    ($name:ident, $l:ident, $r:ident) => {
        #[kani::proof]
        #[kani::unwind(8)]
        fn $name() {
            let l = any_of(V::$l);
            let r = any_of(V::$r);
            let m = h::values_are_equal(&l, &r);
            assert!(m == (cmp_ref(0, &l, &r) == T3::T), "simple CASE matches exactly when operand = value is TRUE");
            kani::cover!(m || val(&l).is_none() || val(&r).is_none(), "a match (or a NULL operand)");
            std::mem::forget((l, r));
        }
    };
}
case_eq!(c01_case_integer_integer, Integer, Integer);
case_eq!(c01_case_integer_null, Integer, Null);
case_eq!(c01_case_smallint_integer, Smallint, Integer);
case_eq!(c01_case_bigint_integer, Bigint, Integer);

/// `+ - *` agree with exact integer arithmetic; an error only where the exact result (or an
/// operand) does not fit the 64-bit type; NULL iff an operand is NULL.
macro_rules! arith_ref {
    ($name:ident, $op:expr, $sel:expr, $l:ident, $r:ident) => {
        #[kani::proof]
        #[kani::unwind(8)]
        fn $name() {
            let l = any_of(V::$l);
            let r = any_of(V::$r);
            let res = h::eval_binary_op(&l, &$op, &r, SqlMode::default());
            match (val(&l), val(&r)) {
                (Some(a), Some(b)) => {
                    let want: i128 = match $sel {
                        0 => a + b,
                        1 => a - b,
                        _ => a * b,
                    };
                    let fits = want >= i64::MIN as i128 && want <= i64::MAX as i128;
                    match &res {
                        Ok(v) => {
                            assert!(fits, "no value is produced when the exact result does not fit");
                            assert!(exact(v) == Some(want), "value agrees with exact arithmetic");
                        }
                        Err(_) => assert!(!fits, "an error is raised only when the exact result does not fit in 64 bits"),
                    }
                }
                _ => assert!(matches!(res, Ok(SqlValue::Null)), "arithmetic with NULL is NULL"),
            }
            kani::cover!(matches!(res, Ok(SqlValue::Integer(_)) | Ok(SqlValue::Null)), "a value or NULL");
            std::mem::forget((res, l, r));
        }
    };
}
arith_ref!(c01_plus_integer_integer, B::Plus, 0, Integer, Integer);
arith_ref!(c01_minus_integer_integer, B::Minus, 1, Integer, Integer);
arith_ref!(c01_mul_integer_integer, B::Multiply, 2, Integer, Integer);
arith_ref!(c01_plus_integer_null, B::Plus, 0, Integer, Null);
arith_ref!(c01_mul_null_integer, B::Multiply, 2, Null, Integer);
arith_ref!(c01_minus_smallint_bigint, B::Minus, 1, Smallint, Bigint);


/// VARCHAR / CHAR comparisons (2 ASCII bytes each): all six operators agree with byte-wise
/// lexicographic order, CHAR and VARCHAR are mutually comparable.
fn ascii2() -> String {
    let b: [u8; 2] = kani::any();
    kani::assume(b[0] < 0x80 && b[1] < 0x80);
    let mut s = String::with_capacity(2);
    s.push(b[0] as char);
    s.push(b[1] as char);
    s
}

fn str_cmp_ref(op: u8, a: &str, b: &str) -> T3 {
    let (x, y) = (a.as_bytes(), b.as_bytes());
    let ord = if x[0] != y[0] { x[0].cmp(&y[0]) } else { x[1].cmp(&y[1]) };
    of_bool(match op {
        0 => ord == std::cmp::Ordering::Equal,
        1 => ord != std::cmp::Ordering::Equal,
        2 => ord == std::cmp::Ordering::Less,
        3 => ord != std::cmp::Ordering::Greater,
        4 => ord == std::cmp::Ordering::Greater,
        _ => ord != std::cmp::Ordering::Less,
    })
}

macro_rules! str_comparisons {
    ($name:ident, $l:ident, $r:ident) => {
        #[kani::proof]
        #[kani::unwind(8)]
        fn $name() {
            let (sa, sb) = (ascii2(), ascii2());
            let l = SqlValue::$l(sa.clone());
            let r = SqlValue::$r(sb.clone());
            let mut op = 0u8;
            while op < 6 {
                assert!(real_cmp(op, &l, &r) == str_cmp_ref(op, &sa, &sb), "string comparison agrees with lexicographic byte order");
                op += 1;
            }
            let n = SqlValue::Null;
            assert!(real_cmp(0, &l, &n) == T3::N && real_cmp(2, &n, &r) == T3::N, "string compared with NULL is NULL");
            kani::cover!(sa == sb, "equal strings");
            std::mem::forget((l, r, sa, sb));
        }
    };
}
str_comparisons!(c01_cmp_varchar_varchar, Varchar, Varchar);
str_comparisons!(c01_cmp_character_varchar, Character, Varchar);

/// NOT on truth values and on integers (non-zero is TRUE), IS NULL via is_null.
#[kani::proof]
#[kani::unwind(8)]
fn c06_not_semantics() {
    let n: i64 = kani::any();
    let r = h::eval_unary_op(&UnaryOperator::Not, &SqlValue::Integer(n));
    assert!(matches!(r, Ok(SqlValue::Boolean(b)) if b == (n == 0)), "NOT n is TRUE exactly for n = 0");
    let t = real_not(&SqlValue::Boolean(true));
    let f = real_not(&SqlValue::Boolean(false));
    let u = real_not(&SqlValue::Null);
    assert!(t == T3::F && f == T3::T && u == T3::N, "NOT truth table");
    kani::cover!(true, "reached");
    std::mem::forget(r);
}
