//! vk_exec — Kani harnesses over real vibesql-executor kernels (reached through the
//! cfg-guarded forwarding hooks `evaluator::verif_hooks` / `select::verif_hooks`).
#![allow(dead_code, unused_imports)]
#![allow(clippy::all)]

pub mod gen;

#[cfg(kani)]
mod c24;
#[cfg(kani)]
mod c01;
#[cfg(kani)]
mod c08;
#[cfg(kani)]
mod c07;
#[cfg(kani)]
mod c03;
