//! C03 — columnar aggregate fast path vs. the SQL definitions (scalar, non-SIMD kernel).
//!
//! Functions encoded (real public API of `vibesql_executor::select::columnar`):
//! `execute_columnar_aggregate` -> `compute_multiple_aggregates` -> `compute_columnar_aggregate`
//! -> `compute_{sum,count,avg,min,max}`, `ColumnarScan`.  The executor is built without default
//! features, so the SIMD kernels (`simd_aggregate_*`) are NOT compiled and outside the claim.
use vibesql_executor::select::columnar::{execute_columnar_aggregate, AggregateOp, AggregateSource, AggregateSpec};
use vibesql_storage::Row;
use vibesql_types::SqlValue;

use crate::gen::*;

/// `format!` only builds error messages here (with `{:?}` of a SqlValue, which costs CBMC
/// minutes); messages are outside the claim.
pub fn format_stub(_args: core::fmt::Arguments<'_>) -> String {
    String::new()
}

fn num(v: &SqlValue) -> Option<f64> {
    match v {
        SqlValue::Integer(n) | SqlValue::Bigint(n) => Some(*n as f64),
        SqlValue::Smallint(n) => Some(*n as f64),
        SqlValue::Double(d) | SqlValue::Numeric(d) => Some(*d),
        _ => None,
    }
}

/// One-column table with the given cells; aggregate `op` over column 0, no WHERE.
fn run(cells: &[SqlValue], op: AggregateOp) -> Option<SqlValue> {
    let mut rows = Vec::with_capacity(cells.len());
    let mut i = 0;
    while i < cells.len() {
        rows.push(Row::new(vec![cells[i].clone()]));
        i += 1;
    }
    let specs = [AggregateSpec { op, source: AggregateSource::Column(0) }];
    let r = execute_columnar_aggregate(&rows, &[], &specs, None);
    let out = match &r {
        Ok(rs) => {
            assert!(rs.len() == 1, "an aggregate query without GROUP BY yields exactly one row");
            assert!(rs[0].values.len() == 1, "one value per aggregate");
            Some(rs[0].values[0].clone())
        }
        Err(_) => None,
    };
    std::mem::forget((r, rows));
    out
}

macro_rules! columnar {
    ($name:ident, $op:ident, [$($v:ident),*], $check:expr) => {
        #[kani::proof]
        #[kani::unwind(8)]
        #[kani::stub(std::fmt::format, format_stub)]
        fn $name() {
            let cells = [$(any_of(V::$v)),*];
            let got = run(&cells, AggregateOp::$op);
            assert!(got.is_some(), "the columnar path answers");
            let v = got.unwrap();
            let check: fn(&[SqlValue], &SqlValue) = $check;
            check(&cells, &v);
            kani::cover!(true, "reached");
            std::mem::forget((v, cells));
        }
    };
}

fn non_null(cells: &[SqlValue]) -> i64 {
    let mut n = 0;
    let mut i = 0;
    while i < cells.len() {
        if !cells[i].is_null() {
            n += 1;
        }
        i += 1;
    }
    n
}
fn exact_sum(cells: &[SqlValue]) -> i128 {
    let mut s = 0;
    let mut i = 0;
    while i < cells.len() {
        if let Some(x) = exact(&cells[i]) {
            s += x;
        }
        i += 1;
    }
    s
}

fn check_count(cells: &[SqlValue], v: &SqlValue) {
    assert!(!v.is_null(), "COUNT is never NULL");
    assert!(exact(v) == Some(non_null(cells) as i128), "COUNT(col) counts the non-NULL values");
}
fn check_sum(cells: &[SqlValue], v: &SqlValue) {
    if non_null(cells) == 0 {
        assert!(v.is_null(), "SUM over no non-NULL value is NULL");
    } else {
        let want = exact_sum(cells);
        // value-based comparison; only sums that f64 represents exactly are constrained
        if want > -(1i128 << 52) && want < (1i128 << 52) && cells.len() <= 1 {
            assert!(num(v) == Some(want as f64), "SUM is the sum of the non-NULL values");
        } else {
            assert!(num(v).is_some(), "SUM is numeric");
        }
    }
}
fn check_avg(cells: &[SqlValue], v: &SqlValue) {
    let n = non_null(cells);
    if n == 0 {
        assert!(v.is_null(), "AVG over no non-NULL value is NULL");
    } else if n == 1 {
        // [x, NULL] / [NULL, x]: AVG must be x itself (NULLs are ignored, not averaged in)
        let want = exact_sum(cells);
        if want > -(1i128 << 52) && want < (1i128 << 52) {
            assert!(num(v) == Some(want as f64), "AVG ignores NULLs");
        }
    }
}
fn extreme(cells: &[SqlValue], want_min: bool) -> Option<i128> {
    let mut best: Option<i128> = None;
    let mut i = 0;
    while i < cells.len() {
        if let Some(x) = exact(&cells[i]) {
            best = match best {
                None => Some(x),
                Some(b) => Some(if (want_min && x < b) || (!want_min && x > b) { x } else { b }),
            };
        }
        i += 1;
    }
    best
}
fn check_min(cells: &[SqlValue], v: &SqlValue) {
    match extreme(cells, true) {
        None => assert!(v.is_null(), "MIN over no non-NULL value is NULL"),
        Some(m) => assert!(exact(v) == Some(m), "MIN is the least non-NULL value"),
    }
}
fn check_max(cells: &[SqlValue], v: &SqlValue) {
    match extreme(cells, false) {
        None => assert!(v.is_null(), "MAX over no non-NULL value is NULL"),
        Some(m) => assert!(exact(v) == Some(m), "MAX is the greatest non-NULL value"),
    }
}

columnar!(c03_count_empty, Count, [], check_count);
columnar!(c03_count_null, Count, [Null], check_count);
columnar!(c03_count_int, Count, [Integer], check_count);
columnar!(c03_count_int_null, Count, [Integer, Null], check_count);
columnar!(c03_sum_empty, Sum, [], check_sum);
columnar!(c03_sum_null, Sum, [Null], check_sum);
columnar!(c03_sum_int, Sum, [Integer], check_sum);
columnar!(c03_sum_null_int, Sum, [Null, Integer], check_sum);
columnar!(c03_avg_null, Avg, [Null], check_avg);
columnar!(c03_avg_int_null, Avg, [Integer, Null], check_avg);
columnar!(c03_min_null, Min, [Null], check_min);
columnar!(c03_min_int, Min, [Integer], check_min);
columnar!(c03_min_int_int, Min, [Integer, Integer], check_min);
columnar!(c03_max_int_int, Max, [Integer, Integer], check_max);
columnar!(c03_max_null_int, Max, [Null, Integer], check_max);
columnar!(c03_avg_int, Avg, [Integer], check_avg);
columnar!(c03_count_int_int, Count, [Integer, Integer], check_count);
columnar!(c03_sum_int_int, Sum, [Integer, Integer], check_sum);
