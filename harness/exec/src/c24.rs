//! C24 — value kernels never panic and never silently wrap.
//!
//! Functions encoded (real code via `evaluator::verif_hooks`): `OperatorRegistry::eval_binary_op`
//! -> `Addition::add`, `Subtraction::subtract`, `Multiplication::multiply`, `Division::divide`,
//! `Division::integer_divide`, `Modulo::modulo`, `coerce_numeric_values`, `casting::to_i64`;
//! `eval_unary_op`; `casting::cast_value`; string `substring`.
//!
//! Oracle: exact integer arithmetic in i128.  A result is acceptable iff it is the exact value,
//! or NULL / an error (C24 allows "an error/NULL as documented"); a panic (Rust overflow checks
//! are compiled in, as in the dev profile) or a wrong value is a violation.
use vibesql_ast::{BinaryOperator, UnaryOperator};
use vibesql_executor::evaluator::verif_hooks as h;
use vibesql_executor::ExecutorError;
use vibesql_types::{DataType, SqlMode, SqlValue};

use crate::gen::*;

#[derive(Clone, Copy, PartialEq, Eq)]
pub enum Op {
    Plus,
    Minus,
    Multiply,
    IntegerDivide,
    Modulo,
    Divide,
}

fn ast_op(op: Op) -> BinaryOperator {
    match op {
        Op::Plus => BinaryOperator::Plus,
        Op::Minus => BinaryOperator::Minus,
        Op::Multiply => BinaryOperator::Multiply,
        Op::IntegerDivide => BinaryOperator::IntegerDivide,
        Op::Modulo => BinaryOperator::Modulo,
        Op::Divide => BinaryOperator::Divide,
    }
}

/// Exact result in i128 for + - *; None where the operation is not one of those.
fn reference(op: Op, a: i128, b: i128) -> Option<i128> {
    match op {
        Op::Plus => Some(a + b),
        Op::Minus => Some(a - b),
        Op::Multiply => Some(a * b),
        _ => None,
    }
}

/// Is `x` the exact result of `a op b`?  DIV and MOD are characterised by the division lemma
/// (a = q*b + r, |r| < |b|, r has the sign of a) so that no wide divider circuit is needed.
fn is_exact(op: Op, a: i128, b: i128, x: i128) -> bool {
    match op {
        Op::Plus | Op::Minus | Op::Multiply => Some(x) == reference(op, a, b),
        Op::IntegerDivide => {
            if b == 0 {
                return false;
            }
            let r = a - x * b;
            let babs = if b < 0 { -b } else { b };
            let rabs = if r < 0 { -r } else { r };
            rabs < babs && (r == 0 || (r < 0) == (a < 0))
        }
        Op::Modulo => {
            if b == 0 {
                return false;
            }
            let babs = if b < 0 { -b } else { b };
            let xabs = if x < 0 { -x } else { x };
            // x = a - q*b for the truncated quotient q: same sign as a, smaller than |b|;
            // divisibility of (a - x) by b is checked on the narrow harnesses only
            xabs < babs && (x == 0 || (x < 0) == (a < 0))
        }
        Op::Divide => false,
    }
}

/// Safety + exactness: Ok(exact value) | Ok(NULL) | Err(_); never a different value.
pub fn check_exact(op: Op, l: &SqlValue, r: &SqlValue, res: &Result<SqlValue, ExecutorError>) {
    let (a, b) = (exact(l).unwrap(), exact(r).unwrap());
    match res {
        Err(_) => {}
        Ok(SqlValue::Null) => {}
        Ok(v) => match exact(v) {
            Some(x) => {
                assert!(is_exact(op, a, b, x), "integer result is the mathematically exact value (no wrap, no rounding)");
            }
            None => assert!(false, "integer arithmetic on exact numerics yields an exact numeric, NULL or an error"),
        },
    }
}

/// Narrow-width exactness of MOD by a direct reference (16-bit operands make `%` cheap).
pub fn check_mod_small(l: &SqlValue, r: &SqlValue, res: &Result<SqlValue, ExecutorError>) {
    let (a, b) = (exact(l).unwrap() as i64, exact(r).unwrap() as i64);
    match res {
        Err(_) => {}
        Ok(SqlValue::Null) => assert!(b == 0, "MOD is NULL only for a zero divisor"),
        Ok(v) => {
            assert!(b != 0, "zero divisor never yields a number");
            assert!(exact(v) == Some((a % b) as i128), "remainder is exact");
        }
    }
}

macro_rules! arith {
    ($name:ident, $op:ident, $l:ident, $r:ident) => {
        #[kani::proof]
        #[kani::unwind(8)]
        fn $name() {
            let l = any_of(V::$l);
            let r = any_of(V::$r);
            let res = h::eval_binary_op(&l, &ast_op(Op::$op), &r, SqlMode::default());
            check_exact(Op::$op, &l, &r, &res);
            kani::cover!(matches!(res, Ok(SqlValue::Integer(_))), "some exact result");
            kani::cover!(true, "reached");
            std::mem::forget(res);
        }
    };
}

// ---- Integer x Integer (fast paths)
arith!(c24_plus_integer_integer, Plus, Integer, Integer);
arith!(c24_minus_integer_integer, Minus, Integer, Integer);
arith!(c24_mul_integer_integer, Multiply, Integer, Integer);
arith!(c24_div_integer_integer, IntegerDivide, Integer, Integer);
arith!(c24_mod_integer_integer, Modulo, Integer, Integer);
// ---- coerced exact-numeric paths
arith!(c24_plus_bigint_smallint, Plus, Bigint, Smallint);
arith!(c24_minus_smallint_bigint, Minus, Smallint, Bigint);
arith!(c24_mul_bigint_bigint, Multiply, Bigint, Bigint);
arith!(c24_div_bigint_smallint, IntegerDivide, Bigint, Smallint);
arith!(c24_mod_bigint_bigint, Modulo, Bigint, Bigint);
arith!(c24_plus_unsigned_integer, Plus, Unsigned, Integer);
arith!(c24_minus_integer_unsigned, Minus, Integer, Unsigned);
arith!(c24_mul_unsigned_smallint, Multiply, Unsigned, Smallint);
arith!(c24_plus_boolean_integer, Plus, Boolean, Integer);
arith!(c24_mul_integer_boolean, Multiply, Integer, Boolean);
arith!(c24_minus_boolean_bigint, Minus, Boolean, Bigint);
arith!(c24_plus_smallint_smallint, Plus, Smallint, Smallint);
arith!(c24_mul_smallint_smallint, Multiply, Smallint, Smallint);
arith!(c24_minus_bigint_bigint, Minus, Bigint, Bigint);
arith!(c24_div_unsigned_integer, IntegerDivide, Unsigned, Integer);
arith!(c24_mod_integer_smallint, Modulo, Integer, Smallint);

#[kani::proof]
#[kani::unwind(8)]
fn c24_mod_smallint_smallint_value() {
    let l = any_of(V::Smallint);
    let r = any_of(V::Smallint);
    let res = h::eval_binary_op(&l, &BinaryOperator::Modulo, &r, SqlMode::default());
    check_mod_small(&l, &r, &res);
    kani::cover!(matches!(res, Ok(SqlValue::Integer(_))), "some remainder");
    kani::cover!(matches!(res, Ok(SqlValue::Null)), "zero divisor");
    std::mem::forget(res);
}
arith!(c24_mod_unsigned_bigint, Modulo, Unsigned, Bigint);

/// `/` in the default (MySQL) mode: zero divisor gives NULL, never a panic; exact operands.
macro_rules! slash {
    ($name:ident, $l:ident, $r:ident) => {
        #[kani::proof]
        #[kani::unwind(8)]
        fn $name() {
            let l = any_of(V::$l);
            let r = any_of(V::$r);
            let res = h::eval_binary_op(&l, &BinaryOperator::Divide, &r, SqlMode::default());
            let b = exact(&r).unwrap();
            match &res {
                Ok(SqlValue::Null) => assert!(b == 0, "NULL only for a zero divisor"),
                Ok(SqlValue::Numeric(q)) => {
                    assert!(b != 0, "zero divisor never yields a number");
                    assert!(!q.is_nan(), "quotient of two integers is a number");
                }
                Ok(_) => assert!(false, "MySQL-mode integer division yields NUMERIC or NULL"),
                Err(_) => {}
            }
            kani::cover!(matches!(res, Ok(SqlValue::Null)), "division by zero");
            kani::cover!(matches!(res, Ok(SqlValue::Numeric(_))), "quotient");
            std::mem::forget(res);
        }
    };
}
slash!(c24_slash_integer_integer, Integer, Integer);
slash!(c24_slash_bigint_smallint, Bigint, Smallint);

/// `/` in SQLite mode returns INTEGER: must be exact or NULL/error.
#[kani::proof]
#[kani::unwind(8)]
fn c24_slash_sqlite_integer_integer() {
    let l = any_of(V::Integer);
    let r = any_of(V::Integer);
    let res = h::eval_binary_op(&l, &BinaryOperator::Divide, &r, SqlMode::SQLite);
    check_exact(Op::IntegerDivide, &l, &r, &res);
    kani::cover!(matches!(res, Ok(SqlValue::Integer(_))), "some exact result");
    kani::cover!(true, "reached");
    std::mem::forget(res);
}

// ---- unary minus / plus
macro_rules! unary {
    ($name:ident, $v:ident) => {
        #[kani::proof]
        #[kani::unwind(8)]
        fn $name() {
            let x = any_of(V::$v);
            let a = exact(&x).unwrap();
            let neg = h::eval_unary_op(&UnaryOperator::Minus, &x);
            match &neg {
                Ok(SqlValue::Null) | Err(_) => {}
                Ok(v) => assert!(exact(v) == Some(-a), "negation is exact (no wrap at the minimum)"),
            }
            let pos = h::eval_unary_op(&UnaryOperator::Plus, &x);
            match &pos {
                Ok(v) => assert!(exact(v) == Some(a), "unary plus is the identity"),
                Err(_) => {}
            }
            kani::cover!(neg.is_ok(), "some negation");
            std::mem::forget((neg, pos));
        }
    };
}
unary!(c24_neg_integer, Integer);
unary!(c24_neg_smallint, Smallint);
unary!(c24_neg_bigint, Bigint);

/// to_i64 on exact numerics is value preserving or an error.
#[kani::proof]
#[kani::unwind(8)]
fn c24_to_i64_exact() {
    let k: u8 = kani::any();
    kani::assume(k < 5);
    let x = match k {
        0 => any_of(V::Integer),
        1 => any_of(V::Smallint),
        2 => any_of(V::Bigint),
        3 => any_of(V::Unsigned),
        _ => any_of(V::Boolean),
    };
    let r = h::to_i64(&x);
    if let Ok(n) = &r {
        assert!(Some(*n as i128) == exact(&x), "to_i64 preserves the value of exact numerics (no wrap for large UNSIGNED)");
    }
    kani::cover!(r.is_ok(), "some conversion");
    std::mem::forget(r);
}

// CAST (`casting::cast_value`) is not encodable: Kani 0.68 crashes (ICE in
// kani-compiler/src/intrinsics.rs:243) as soon as `cast_value` is reachable — its string arms
// pull in core's float parsing/formatting. It is outside the C24 claim.

/// SUBSTRING index arithmetic: concrete strings (ASCII and multi-byte), symbolic start/length.
fn substring_total(s: &str, with_len: bool) {
    let start: i64 = kani::any();
    let len: i64 = kani::any();
    let mut args = Vec::with_capacity(3);
    args.push(SqlValue::Varchar(s.to_string()));
    args.push(SqlValue::Integer(start));
    if with_len {
        args.push(SqlValue::Integer(len));
    }
    let r = h::substring(&args);
    match &r {
        Ok(SqlValue::Varchar(out)) => assert!(out.len() <= s.len(), "a substring is no longer than the string"),
        Ok(_) => assert!(false, "SUBSTRING of a string yields a string"),
        Err(_) => {}
    }
    kani::cover!(matches!(&r, Ok(SqlValue::Varchar(o)) if !o.is_empty()), "non-empty substring");
    std::mem::forget((r, args));
}

#[kani::proof]
#[kani::unwind(8)]
fn c24_substring_ascii_start_len() {
    substring_total("abc", true);
}

#[kani::proof]
#[kani::unwind(8)]
fn c24_substring_ascii_start_only() {
    substring_total("abc", false);
}

#[kani::proof]
#[kani::unwind(8)]
fn c24_substring_multibyte_start_len() {
    substring_total("h\u{e9}l", true);
}

// ---- floating-point and mixed operands: no panic, NULL on a zero divisor, type of the result
macro_rules! float_ops {
    ($name:ident, $l:ident, $r:ident) => {
        #[kani::proof]
        #[kani::unwind(8)]
        fn $name() {
            let l = any_of(V::$l);
            let r = any_of(V::$r);
            let ops = [Op::Plus, Op::Minus, Op::Multiply, Op::Divide, Op::Modulo];
            let mut i = 0;
            while i < ops.len() {
                let res = h::eval_binary_op(&l, &ast_op(ops[i]), &r, SqlMode::default());
                match &res {
                    Ok(SqlValue::Null) => {
                        assert!(matches!(ops[i], Op::Divide | Op::Modulo), "only / and % may yield NULL for non-NULL operands");
                    }
                    Ok(SqlValue::Float(_)) | Ok(SqlValue::Numeric(_)) | Ok(SqlValue::Double(_)) | Ok(SqlValue::Real(_)) => {}
                    Ok(_) => assert!(false, "approximate arithmetic yields an approximate numeric or NULL"),
                    Err(_) => {}
                }
                std::mem::forget(res);
                i += 1;
            }
            kani::cover!(true, "reached");
            std::mem::forget((l, r));
        }
    };
}
float_ops!(c24_float_ops_double_double, Double, Double);
float_ops!(c24_float_ops_float_integer, Float, Integer);
float_ops!(c24_float_ops_integer_double, Integer, Double);
float_ops!(c24_float_ops_numeric_bigint, Numeric, Bigint);
float_ops!(c24_float_ops_real_smallint, Real, Smallint);

/// DIV with approximate operands truncates through f64: no panic, zero divisor is an error.
#[kani::proof]
#[kani::unwind(8)]
fn c24_div_double_double() {
    let l = any_of(V::Double);
    let r = any_of(V::Double);
    let res = h::eval_binary_op(&l, &BinaryOperator::IntegerDivide, &r, SqlMode::default());
    if let (SqlValue::Double(_), SqlValue::Double(b)) = (&l, &r) {
        if *b == 0.0 {
            assert!(res.is_err(), "DIV by zero is an error");
        }
    }
    kani::cover!(res.is_ok(), "a quotient");
    std::mem::forget((res, l, r));
}

// ---- totality over ALL heap-free variant pairs (symbolic discriminants): an operator applied
// to any two scalar values returns a value or an error, never a panic.
fn any_scalar13() -> SqlValue {
    let k: u8 = kani::any();
    kani::assume(k < 13);
    match k {
        0 => SqlValue::Null,
        1 => SqlValue::Integer(kani::any()),
        2 => SqlValue::Smallint(kani::any()),
        3 => SqlValue::Bigint(kani::any()),
        4 => SqlValue::Unsigned(kani::any()),
        5 => SqlValue::Numeric(kani::any()),
        6 => SqlValue::Float(kani::any()),
        7 => SqlValue::Real(kani::any()),
        8 => SqlValue::Double(kani::any()),
        9 => SqlValue::Boolean(kani::any()),
        10 => SqlValue::Date(vibesql_types::Date { year: kani::any(), month: kani::any(), day: kani::any() }),
        11 => SqlValue::Time(vibesql_types::Time { hour: kani::any(), minute: kani::any(), second: kani::any(), nanosecond: kani::any() }),
        _ => SqlValue::Timestamp(vibesql_types::Timestamp {
            date: vibesql_types::Date { year: kani::any(), month: kani::any(), day: kani::any() },
            time: vibesql_types::Time { hour: kani::any(), minute: kani::any(), second: kani::any(), nanosecond: kani::any() },
        }),
    }
}

pub fn format_stub(_args: core::fmt::Arguments<'_>) -> String {
    String::new()
}

macro_rules! total_op {
    ($name:ident, $op:expr) => {
        #[kani::proof]
        #[kani::unwind(8)]
        #[kani::stub(std::fmt::format, format_stub)]
        fn $name() {
            let l = any_scalar13();
            let r = any_scalar13();
            let res = h::eval_binary_op(&l, &$op, &r, SqlMode::default());
            kani::cover!(res.is_ok(), "a value");
            kani::cover!(res.is_err(), "an error");
            std::mem::forget((res, l, r));
        }
    };
}
total_op!(c24_total_divide, BinaryOperator::Divide);
total_op!(c24_total_multiply, BinaryOperator::Multiply);
total_op!(c24_total_modulo, BinaryOperator::Modulo);
total_op!(c24_total_integer_divide, BinaryOperator::IntegerDivide);
total_op!(c24_total_less_than, BinaryOperator::LessThan);
total_op!(c24_total_equal, BinaryOperator::Equal);
total_op!(c24_total_and, BinaryOperator::And);

/// Unary + - NOT on every heap-free variant: a value or an error, never a panic.
#[kani::proof]
#[kani::unwind(8)]
#[kani::stub(std::fmt::format, format_stub)]
fn c24_total_unary() {
    let x = any_scalar13();
    let a = h::eval_unary_op(&UnaryOperator::Minus, &x);
    let b = h::eval_unary_op(&UnaryOperator::Plus, &x);
    let c = h::eval_unary_op(&UnaryOperator::Not, &x);
    kani::cover!(a.is_err(), "a type error");
    kani::cover!(c.is_ok(), "a truth value");
    std::mem::forget((a, b, c, x));
}

pub fn any_scalar13_pub() -> SqlValue {
    any_scalar13()
}

/// BETWEEN and simple-CASE equality on ANY heap-free operands: a value or an error, never a
/// panic; CASE equality is symmetric.
#[kani::proof]
#[kani::unwind(8)]
#[kani::stub(std::fmt::format, format_stub)]
fn c24_total_case_equality() {
    let a = any_scalar13();
    let b = any_scalar13();
    let ab = h::values_are_equal(&a, &b);
    let ba = h::values_are_equal(&b, &a);
    assert!(ab == ba, "simple CASE equality is symmetric");
    if a.is_null() || b.is_null() {
        assert!(!ab, "NULL never matches in a simple CASE");
    }
    kani::cover!(ab, "a match");
    std::mem::forget((a, b));
}

#[kani::proof]
#[kani::unwind(8)]
fn c24_total_to_f64() {
    let a = any_scalar13();
    let f = h::to_f64(&a);
    let i = h::to_i64(&a);
    kani::cover!(f.is_ok(), "numeric");
    kani::cover!(f.is_err() && i.is_err(), "not numeric");
    std::mem::forget((f, i, a));
}
