//! Symbolic value builders. Variant (shape) is concrete per call site; payloads are symbolic.
use vibesql_types::SqlValue;

/// Numeric variant selector used by the macro-generated harness families.
#[derive(Clone, Copy, PartialEq, Eq, Debug)]
pub enum V {
    Null,
    Integer,
    Smallint,
    Bigint,
    Unsigned,
    Numeric,
    Float,
    Real,
    Double,
    Boolean,
}

#[cfg(kani)]
pub fn any_of(v: V) -> SqlValue {
    match v {
        V::Null => SqlValue::Null,
        V::Integer => SqlValue::Integer(kani::any()),
        V::Smallint => SqlValue::Smallint(kani::any()),
        V::Bigint => SqlValue::Bigint(kani::any()),
        V::Unsigned => SqlValue::Unsigned(kani::any()),
        V::Numeric => SqlValue::Numeric(kani::any()),
        V::Float => SqlValue::Float(kani::any()),
        V::Real => SqlValue::Real(kani::any()),
        V::Double => SqlValue::Double(kani::any()),
        V::Boolean => SqlValue::Boolean(kani::any()),
    }
}

/// Exact mathematical value of an exact-numeric SqlValue (i128), if it is one.
pub fn exact(v: &SqlValue) -> Option<i128> {
    match v {
        SqlValue::Integer(n) | SqlValue::Bigint(n) => Some(*n as i128),
        SqlValue::Smallint(n) => Some(*n as i128),
        SqlValue::Unsigned(n) => Some(*n as i128),
        SqlValue::Boolean(b) => Some(*b as i128),
        _ => None,
    }
}
