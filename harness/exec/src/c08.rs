//! C08 — ORDER BY / LIMIT kernels.
//!
//! Functions encoded (real code via `select::verif_hooks`): `grouping::compare_sql_values`
//! (the comparison every ORDER BY key goes through) and `helpers::apply_limit_offset`.
use std::cmp::Ordering;

use vibesql_executor::select::verif_hooks as s;
use vibesql_storage::Row;
use vibesql_types::SqlValue;

use crate::gen::*;

/// A value of one column type, or NULL (symbolic choice, symbolic payload).
fn col_value(v: V) -> SqlValue {
    if kani::any() {
        SqlValue::Null
    } else {
        any_of(v)
    }
}

/// compare_sql_values is a total preorder on a single-type column with NULLs:
/// antisymmetric, transitive, NULL sorts last, non-NULLs by value.
macro_rules! key_order {
    ($name:ident, $v:ident) => {
        #[kani::proof]
        #[kani::unwind(8)]
        fn $name() {
            let a = col_value(V::$v);
            let b = col_value(V::$v);
            let c = col_value(V::$v);
            let ab = s::compare_sql_values(&a, &b);
            let ba = s::compare_sql_values(&b, &a);
            let bc = s::compare_sql_values(&b, &c);
            let ac = s::compare_sql_values(&a, &c);
            assert!(ab == ba.reverse(), "sort comparison is antisymmetric");
            if ab != Ordering::Greater && bc != Ordering::Greater {
                assert!(ac != Ordering::Greater, "sort comparison is transitive");
            }
            if ab == Ordering::Equal && bc == Ordering::Equal {
                assert!(ac == Ordering::Equal, "sort equivalence is transitive");
            }
            if a.is_null() && !b.is_null() {
                assert!(ab == Ordering::Greater, "NULL sorts after every non-NULL key");
            }
            if let (Some(x), Some(y)) = (exact(&a), exact(&b)) {
                assert!(ab == x.cmp(&y), "non-NULL exact keys sort by value");
            }
            kani::cover!(ab == Ordering::Less && bc == Ordering::Less, "a chain");
            kani::cover!(a.is_null() && !b.is_null(), "NULL vs value");
            std::mem::forget((a, b, c));
        }
    };
}
key_order!(c08_key_order_integer, Integer);
key_order!(c08_key_order_smallint, Smallint);
key_order!(c08_key_order_bigint, Bigint);
key_order!(c08_key_order_boolean, Boolean);
// full domain for floats: fails on NaN keys (known finding) ...
key_order!(c08_key_order_double_full, Double);

/// ... complement twin: without NaN keys the float comparison is a total preorder.
#[kani::proof]
#[kani::unwind(8)]
fn c08_key_order_double_no_nan() {
    let mk = || {
        if kani::any() {
            SqlValue::Null
        } else {
            let f: f64 = kani::any();
            kani::assume(!f.is_nan());
            SqlValue::Double(f)
        }
    };
    let (a, b, c) = (mk(), mk(), mk());
    let ab = s::compare_sql_values(&a, &b);
    let ba = s::compare_sql_values(&b, &a);
    let bc = s::compare_sql_values(&b, &c);
    let ac = s::compare_sql_values(&a, &c);
    assert!(ab == ba.reverse(), "sort comparison is antisymmetric");
    if ab != Ordering::Greater && bc != Ordering::Greater {
        assert!(ac != Ordering::Greater, "sort comparison is transitive (no NaN keys)");
    }
    if a.is_null() && !b.is_null() {
        assert!(ab == Ordering::Greater, "NULL sorts after every non-NULL key");
    }
    kani::cover!(ab == Ordering::Less && bc == Ordering::Less, "a chain");
    std::mem::forget((a, b, c));
}

/// LIMIT n OFFSET m returns exactly rows[m .. m+n) (clipped), in order, for every n, m.
fn limit_offset<const N: usize>() {
    let mut rows = Vec::with_capacity(N);
    let mut i = 0;
    while i < N {
        // Row i is identified by the capacity (i + 1) of its (empty) value vector: moving a row
        // keeps its buffer, and dropping an empty vector needs no per-element drop glue.
        rows.push(Row::new(Vec::with_capacity(i + 1)));
        i += 1;
    }
    let limit: Option<usize> = if kani::any() { Some(kani::any()) } else { None };
    let offset: Option<usize> = if kani::any() { Some(kani::any()) } else { None };
    let out = s::apply_limit_offset(rows, limit, offset);
    let start = match offset {
        Some(o) => o,
        None => 0,
    };
    let avail = if start >= N { 0 } else { N - start };
    let want = match limit {
        Some(l) => {
            if l < avail {
                l
            } else {
                avail
            }
        }
        None => avail,
    };
    assert!(out.len() == want, "LIMIT/OFFSET returns min(limit, rows - offset) rows");
    let k: usize = kani::any(); // universally quantified position
    if k < out.len() {
        assert!(out[k].values.len() == 0, "rows are returned unchanged");
        assert!(out[k].values.capacity() == start + k + 1, "row k of the result is row offset+k of the input");
    }
    kani::cover!(out.len() == N, "everything returned");
    kani::cover!(N == 0 || out.len() == 0, "nothing returned");
    kani::cover!(N < 2 || (out.len() == 1 && start == 1), "a middle slice");
    std::mem::forget(out);
}

#[kani::proof]
#[kani::unwind(6)]
fn c08_limit_offset_0_rows() {
    limit_offset::<0>();
}
#[kani::proof]
#[kani::unwind(6)]
fn c08_limit_offset_1_row() {
    limit_offset::<1>();
}
#[kani::proof]
#[kani::unwind(6)]
fn c08_limit_offset_3_rows() {
    limit_offset::<3>();
}

/// Any two heap-free values of ANY types: the sort comparison never panics and is
/// antisymmetric (mixed types and NaN compare Equal both ways).
#[kani::proof]
#[kani::unwind(8)]
fn c08_key_order_any_types() {
    let a = crate::c24::any_scalar13_pub();
    let b = crate::c24::any_scalar13_pub();
    let ab = s::compare_sql_values(&a, &b);
    let ba = s::compare_sql_values(&b, &a);
    assert!(ab == ba.reverse(), "sort comparison is antisymmetric for every pair of values");
    if a.is_null() && !b.is_null() {
        assert!(ab == Ordering::Greater, "NULL sorts after every non-NULL key");
    }
    kani::cover!(ab == Ordering::Less, "ordered pair");
    std::mem::forget((a, b));
}
